#!/usr/bin/env python3
# usage: addfinding.py <property> <status known|fixed> <signature> <what> [commit]
import json, sys, subprocess
prop, status, sig, what = sys.argv[1:5]
commit = sys.argv[5] if len(sys.argv) > 5 else None
k = json.load(open('/verif/known_findings.json'))
e = {"property": prop, "signature": sig, "status": status}
if status == "fixed":
    if not commit:
        commit = subprocess.check_output(["git", "-C", "/repo", "log", "--format=%h", "-1"], text=True).strip()
    e["commit"] = commit
    e["what"] = "fixed: property=%s %s %s" % (prop, commit, what)
else:
    e["what"] = what
k["findings"] = [f for f in k["findings"] if not (f["property"] == prop and f["signature"] == sig)]
k["findings"].append(e)
json.dump(k, open('/verif/known_findings.json', 'w'), indent=1)
