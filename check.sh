#!/bin/bash
# usage: check.sh <property id> quick|thorough [extra args]
# Rebuilds the harness group binary from /repo's working tree (hooks supplied
# by build overlay + tag verif) and runs the check.
set -u
ID="$1"; TIER="${2:-quick}"; shift; shift || true
V="$(cd "$(dirname "$0")" && pwd)"
export VERIF_DIR="${VERIF_DIR_OVERRIDE:-$V}"
export GOFLAGS=-mod=mod GOPROXY=off GOSUMDB=off GOTOOLCHAIN=local
REPO="${VERIF_REPO:-/repo}"
case "$ID" in
  C09|C10|C11|C12|C13|C14|C15|C16|C17|C18|C19|C27|C28) G=core; PKG=./verifh/cmd/core;;
  C01|C02|C21|C25) G=riscv; PKG=./verifh/cmd/riscv;;
  C03|C04|C05|C06|C07|C08|C20|C26) G=prog; PKG=./verifh/cmd/prog;;
  C22|C23|C24|C29|C30|C31|C32) G=ui; PKG=./internal/consoleui/verifh/cmd/ui;;
  *) echo "unknown property $ID" >&2; exit 3;;
esac
mkdir -p "$V/build" "$V/bin" "$VERIF_DIR/evidence"
OV="$V/build/overlay.$$.json"
VERIF_OVERLAY_OUT="$OV" VERIF_REPO="$REPO" python3 "$V/gen_overlay.py" || exit 3
BIN="$V/bin/vc-$G.$$"
( cd "$REPO" && go build -tags verif -overlay "$OV" -o "$BIN" "$PKG" ) 
rc=$?
rm -f "$OV"
if [ $rc -ne 0 ]; then
  echo "BUILD-FAILED group=$G (harness does not compile against the current tree)" >&2
  rm -f "$BIN"; exit 2
fi
export VERIF_REPO_DIR="$REPO"
"$BIN" -id "$ID" -tier "$TIER" "$@"
rc=$?
rm -f "$BIN"
exit $rc
