#!/usr/bin/env python3
"""Regenerates MANIFEST.json from the table below (single source of truth)."""
import json, os
V = os.path.dirname(os.path.abspath(__file__))
ALL = ["C%02d" % i for i in range(1, 33)]
# id -> (engine, technique, level text, level note, design ref)
CHECKS = {}
def add(i, eng, tech, text, note, ref):
    CHECKS[i] = (eng, tech, text, note, ref)

add("C17", "ENUM",
    "bounded-exhaustive enumeration of all interval lists and all pairs of sets over an 8-element universe against a bitmask model",
    "Every list of <=3 (quick) / <=4 (thorough) non-empty intervals and all 256x256 pairs of subsets of an 8-integer universe, at five placements in three integer types (around 0, MinInt64, top of uint64/uint8), executed on the real interval.Map code and compared with a bitmask model; canonical form checked on every result. Complete within that universe; larger universes are not explored.",
    "Trusted: the bitmask model (Go integer ops). Assumes interval ends are representable in T and NewMap gets non-empty intervals only.",
    "DESIGN.md §3 C17")


T_ENUM = "bounded-exhaustive enumeration of the declared input space on the real code against an independent reference model"
T_HIST = "explicit-state search over operation histories: fresh real object, replay, one more operation, full observable surface compared with a reference model"
add("C09", "ENUM", T_ENUM + " (big-integer IR evaluator)",
    "ConstFold executed on every expression tree of the declared bounded spaces (all trees with <=2 internal nodes over small leaf/width alphabets, 3 in thorough, all width-gadget chains <=3 in every consumer context, wide widths, constant-only trees) and compared with the original under 9 valuations by an evaluator written from the IR documentation; width, single-constant, no-foldable-operation and idempotence oracles on each. Complete within those bounds; larger trees / other valuations are not explored.",
    "Trusted: harness/ir evaluator (independent of expreval/ConstFold). Semantic equality is decided on 9 valuations only.", "DESIGN.md §3 C09")
add("C10", "ENUM", T_ENUM + " (math/big arithmetic)",
    "ConstFold of each operator and Less on constants: all 65536 operand pairs at width 1, all byte-pattern operands for operand/operation widths 1..3, boundary alphabets and every shift amount at widths up to 255, against math/big following the documented width rules. Exhaustive at width 1; boundary-valued above.",
    "Trusted: math/big. Above width 1 operands are boundary alphabets.", "DESIGN.md §3 C10")
add("C11", "ENUM", T_ENUM + " (documented gadget functions in math/big)",
    "Every exported exprtools gadget evaluated both through the real ConstFold (constants) and through the independent evaluator (register operands) for all 65536 operand pairs at width 1 and boundary alphabets at widths 2..16 (SignedMul to 127), compared with big-integer definitions of the documented functions within the documented preconditions.",
    "Trusted: the oracle definitions transcribed from the doc comments; preconditions (operand width = w for signed ops, sign bit < 8w, mask count <= 8w, condition not wider than w).", "DESIGN.md §3 C11")
add("C12", "ENUM", T_ENUM,
    "SetWidth to widths 1..4 (more on wide trees) and PurgeWidthGadgets on every tree of the C09 spaces; result width, value (original adjusted to the new width) under 9 valuations, and the (key, address width, load width) list of memory loads compared.",
    "Trusted: harness/ir evaluator; 9 valuations with pseudo-random memory so a changed address changes the data.", "DESIGN.md §3 C12")
add("C13", "ENUM", T_ENUM,
    "Possibilities on every tree of the bounded spaces (conditionals nested in operands, branches, conditions, addresses): each alternative has the expression's width and no Less, and under each valuation some alternative has the expression's value.",
    "Coverage of outcomes is judged on 9 valuations.", "DESIGN.md §3 C13")
add("C14", "HIST", T_HIST + " (byte map); no state merging",
    "All histories of <=3 stores (4 over a reduced alphabet in thorough) of constant/symbolic/narrower/wider values at overlapping addresses on a fresh real Sparse memory; after each history every Load, Missing and Blocks over the address window is compared with a byte map under 3 valuations, at the bottom and the top of the address space; values handed in/returned are digest-checked for later alteration.",
    "Histories are not merged (private interval-tree fragmentation is part of the state). Write widths 1..4 plus a few hand-picked wide writes.", "DESIGN.md §3 C14")
add("C15", "HIST", T_HIST + " (byte map)",
    "Bytes memory: creation from every ordered list of <=3 blocks (overlapping, adjacent, unsorted) and every history of <=2 (thorough 3) constant stores on 65 initial layouts; full read surface vs byte map; aliasing of given slices/constants and returned expressions checked.",
    "Initial blocks non-empty; constants only (documented precondition).", "DESIGN.md §3 C15")
add("C16", "HIST", T_HIST + " (layered byte map)",
    "Overlay over each of 64 Bytes layouts and 4 fragmented Sparse bases: every history of <=2 (thorough 3) stores; every Load/Missing/Blocks compared with the layered byte map; the base's own surface compared with its initial model afterwards.",
    "No address wrap; values judged under 3 valuations.", "DESIGN.md §3 C16")
add("C18", "HIST", T_HIST,
    "Every history of <=2 (thorough 3) register writes (two APIs, 6 value shapes, 3 widths) and memory writes with constant/foldable/non-constant addresses on a fresh real State; after each operation all register reads at 5 widths and the memory surface are compared with the model; refused writes must not change the snapshot.",
    "Values judged under 5 valuations.", "DESIGN.md §3 C18")
add("C19", "ENUM", T_ENUM + " (pairwise conflict predicate, brute-force matching)",
    "Every ordered set of <=2 patterns (and 3 from a reduced list) over a two-bit-lane byte alphabet incl. malformed ones: NewMatcher succeeds iff all well formed and pairwise non-overlapping; on success Match on every string of length 0..3 returns the unique matching pattern.",
    "Byte alphabet {00,01,10,11}; pattern length <=2.", "DESIGN.md §3 C19")
add("C27", "ENUM", T_ENUM,
    "NewConstUint/NewConstInt/ConstFrom* on all 8- and 16-bit values x widths 1..4 and boundary 32/64-bit values x widths 1..9 (panic iff out of range, exact little-endian encoding); ConstUint[T] read-back; NewConst copy semantics and WithWidth.",
    "32/64-bit values are boundary alphabets.", "DESIGN.md §3 C27")
add("C28", "ENUM", T_ENUM + " (own recursive walkers)",
    "Equal on all ordered pairs of ~12k trees vs equality of an independent canonical rendering; FindAll for 5 node kinds vs own pre-order walk; ReplaceAll for 5 kinds x 5 replacement functions vs own bottom-up model; Exprs/ExprsMany/EffectApply on both effect kinds.",
    "Trees with <=2 internal nodes plus deep self-nested ones.", "DESIGN.md §3 C28")

add("C01", "ENUM", T_ENUM + " (rvref: RISC-V interpreter written from the specification; effects applied by the independent IR evaluator)",
    "For RV32 and RV64 with all extensions: every mnemonic x register choices (distinct, all aliasing patterns over {x0,x1,x2,x31}, every register number per field) x immediate alphabets and all 4096 I/S/B/CSR immediates (thorough all 2^20 U/J) x boundary operand values^2 x addresses up to the top of the address space; the lifted effects are evaluated in the pre-state and applied in order by the independent evaluator and the result compared with the reference interpreter on x1..x31, touched CSRs, written bytes and pc; key hygiene (no x0, csr0..4095) and extension-subset invariance are checked. Exhaustive over the instruction/immediate/register-pattern alphabet stated; operand values are boundary alphabets.",
    "Trusted: harness/rvref and harness/ir. 64-bit operand values are not enumerated exhaustively (C11 covers the gadgets for all width-1 operands). Accesses straddling 2^XLEN are excluded.", "DESIGN.md §3 C01")
add("C02", "ENUM", T_ENUM + " (rvdec: decoder table written from the specification listings)",
    "Quick: the structured quotient of the word space (all bits[31:20] x funct3 x opcode combinations, plus every single rd/rs1 bit and all-ones for the full configurations) in all 8 configurations; thorough: all 2^32 words x 8 configurations. Acceptance and mnemonic compared with the reference table; short inputs rejected; trailing bytes never influence name, text, type or effects.",
    "Trusted: harness/rvref table (DESIGN.md appendix A).", "DESIGN.md §3 C02")
add("C21", "ENUM", T_ENUM + " (reference walk with rvdec + effect equivalence under the IR evaluator)",
    "Every code image of 1..2 blocks with <=3 words each from a 7-word alphabet (valid, undecodable) and 0..3 trailing bytes, in both orders, separated/adjacent/top-of-address-space, for rv64ima and rv32i, through the real elf block store and parser.Parse: failure iff the reference walk fails; exact tiling, bytes, text and effects equivalent to the front end's lifting.",
    "Blocks built through elf.newBlock/newMemory via an add-only hook.", "DESIGN.md §3 C21")
add("C25", "ENUM", T_ENUM + " (text collision search: equal text => equal lifted behaviour)",
    "Per mnemonic of rv32ima/rv64ima all register choices from a 4-register alphabet (thorough all 32), all 4096 I/S/B immediates, all shift amounts, all CSR numbers x uimm, aq/rl and fence bits, sampled (thorough all) U/J immediates: texts are grouped and any two words with the same text must have identical effects or no witness state on which they differ; mnemonic prefix and offset(base) format checked on each.",
    "A behavioural difference is only reported with a witness pre-state.", "DESIGN.md §3 C25")

add("C03", "HIST", "step-by-step lock-step execution of every bounded program on the real pipeline (elf store -> parser -> deps -> emulator with Overlay(Bytes, Sparse)) against the reference RISC-V interpreter; plus exhaustive conformance runs of a small program list through the real binary under a pseudo-terminal",
    "Every RV64IMA program of <=3 (thorough 4) instructions over a 26-word alphabet chosen to collide (overlapping stores/loads of different widths, image reads, 32-bit then 64-bit register reads, AMO/LR/SC, forward/backward/indirect/pseudo jumps) x 3 initial states supplied through the state provider, run for <=8 steps; after every step pc, all known registers, all written or supplied bytes and the step's access report are compared with the reference; Step must fail exactly off-instruction. Known finding: registers first read at 4 bytes (see known_findings.json).",
    "Trusted: harness/rvref, harness/ir. Register/memory values are 3 initial states, not all values. Self-modifying programs skipped.", "DESIGN.md §3 C03")
add("C04", "HIST", "the C03 exploration with a request monitor on an instrumented state provider",
    "Over the same program x initial-knowledge space (nothing known, registers pre-loaded, memory pre-loaded, image) every provider request is checked: only for never-known state, at most once per register and per byte; later reads observing the supplied values is decided by the lock-step comparison with the reference whose memory is image + provider bytes.",
    "Runs stop at the first state mismatch.", "DESIGN.md §3 C04")
add("C05", "HIST", "explicit-state search over all instruction orders reachable through accepted moves, each order executed on the real emulator and compared differentially with the original order",
    "Every block of <=3 (thorough 4) instructions over a 15-word alphabet built around the dependency rules (+ optional real terminating jump): BFS over all orders reachable by accepted Block.Move calls; each order is run in the real emulator from 3 initial states until pc leaves the block and compared with the original order (registers, memory bytes, final pc, termination). Block moves on multi-block codes: addresses, text and single-step behaviour of every instruction unchanged.",
    "Differential oracle on the real emulator; 3 initial states (aliasing / non-aliasing).", "DESIGN.md §3 C05")
add("C06", "ENUM", T_ENUM + " (independent re-computation of instruction facts from the lifted effects)",
    "Every ordered pair over a 40-word alphabet covering all instruction classes in 3x3 prefix/suffix contexts plus every adjacent pair of the C05 block space: when the pair satisfies the property's literal antecedent (decided by an own walker over riscv.Parse effects) both Move(i,i+1) and Move(i+1,i) must be accepted on a fresh real code.",
    "Antecedent decided from the front end's effects and type flags.", "DESIGN.md §3 C06")
add("C07", "HIST", "explicit-state breadth-first search to closure over move histories on the real deps.Code (fresh instance + replay + one operation), invariants checked in every state",
    "All single-block codes of <=3 (thorough 4) instructions over a 14-word alphabet and 4 multi-block codes; menu: every Block.Move(i,j) and Code.Move(i,j) incl. out-of-range indices; admission iff valid and within the bounds reported before the move; rejected moves change nothing; accepted = rotation; per state: own bounds, contiguous addresses, lookups, dependency edges ordered, history independence of equal orders.",
    "Dependency edges read via an add-only hook.", "DESIGN.md §3 C07")
add("C08", "ENUM", T_ENUM + " (leader-based partition oracle)",
    "deps.NewCode on all synthetic sequences of <=3 (thorough 4) instructions of 7 control-flow kinds with targets over every start / mid-instruction / gap / end / far address, all gap patterns, 3 length patterns, entry over the same alphabet, sorted and reversed, the empty sequence, and all real RISC-V sequences of <=4 words over a 9-word jump alphabet: failure iff entry or a constant real target is not an instruction start; otherwise the exact leader-based partition.",
    "A constant target equal to the instruction's own end is not a jump (property's definition).", "DESIGN.md §3 C08")
add("C20", "ENUM", T_ENUM + " (oracle computed from the generator's description, never by re-parsing)",
    "All ELF64 files over the declared section / program-header alphabets (<=2, thorough 3 sections; <=2 program headers; 5 file types) written by the harness and loaded through the real elf package: REL/CORE/NONE and overlaps must be rejected; whatever loads must equal the description incl. Address lookups over the universe.",
    "Errors are always acceptable (property allows them); well-formed containers only.", "DESIGN.md §3 C20")
add("C26", "PROC", "exhaustive enumeration of generated input files / argument vectors, each run through the real binary as a process (and two pty sessions), classified by exit status and crash markers",
    "~1800 (thorough ~4000) process runs of the real binary: RISC-V payload family x types x entries, every truncation and header-byte substitution of two seed files, huge sizes and top-of-address-space layouts, argument vectors, missing/dir/empty files: exit 1 with a 'mltwist: ' message or UI entered; never panic, fatal error, signal or timeout.",
    "stdin=/dev/null runs end in the terminal-size error (regular error exit); 4 GiB address-space limit, 20 s timeout per run.", "DESIGN.md §3 C26")

T_UI = "explicit-state search over input-line histories on the real UI (fresh session + replay + one more line through processCommand, stdin injected, stdout captured)"
add("C22", "HIST", T_UI + ", sharded over worker processes; plus every line / pair of lines typed into the real binary under a pseudo-terminal",
    "BFS over line histories of depth <=3 (thorough 4) from the initial state and 5 non-initial root states on 3 programs, with per-mode line alphabets (43 disassembler, 35 emulator incl. prompt answers, 27 memory view); screen rendered at two heights after every command; oracle: no panic, command loop never fails, q pops one mode; states deduplicated by the full UI state key.",
    "Injected input always ends with a tail of valid answers (horizon). Terminal size supplied by the harness.", "DESIGN.md §3 C22")
add("C23", "HIST", T_UI + "; BFS to closure over move commands",
    "BFS to closure over 'move N M' for every pair of line numbers (incl. out of range) on multi-block programs with blocks of different sizes; after every command the listing equals a fresh rendering of the same code and a structural model; commands leaving the code unchanged leave the listing unchanged.",
    "Marks are ignored as the property says.", "DESIGN.md §3 C23")
add("C24", "ENUM", T_ENUM + " (captured output, lines counted); plus the real binary under a pseudo-terminal at every terminal height",
    "Listing view x every cursor x every granted height; register view x register counts x ip x value widths; memory view x layouts x cursor rows x heights; generic composites of stub children x heights; application screens at every height 7..40: no panic, lines written <= granted, fixed-height views write exactly their height.",
    "A line = a newline written (+1 for trailing text).", "DESIGN.md §3 C24")
add("C29", "ENUM", T_ENUM,
    "format() on every string over {a,b,space} up to length 10 (thorough 12) x remaining widths 1..5(9) x indentation 0..2 with a non-termination watchdog: indentation, width, character preservation and word-splitting oracles.",
    "Alphabet of 3 characters; widths up to 9.", "DESIGN.md §3 C29")
add("C30", "ENUM", T_ENUM + " (independent integer-literal parser)",
    "parseAddr on every string of length <=4 over a 14-character alphabet plus boundary literals around 2^64 in every base; readValue on the same strings x widths {1,2,4,8} typed through the real line reader: exact value / modulo 2^(8w) / rejection; crashes are violations.",
    "'0'-forms and a leading '+' are not decided by the property text.", "DESIGN.md §3 C30")
add("C31", "HIST", T_UI + "; BFS to closure over (code order, cursor)",
    "From 5 roots (initial and after moves) on 3 programs: down/up/goto with 9 boundary arguments, entry, find with 10 patterns in every reachable (order, cursor) state; model cursor computed independently; failing commands show an error and leave the cursor unchanged.",
    "find patterns are literals / ^$ judged by substring matching.", "DESIGN.md §3 C31")
add("C32", "ENUM", T_ENUM + " (rendered text parsed and compared with a byte map)",
    "Every union of <=2 runs over window-boundary endpoints (+ far run), 4 overwrite patterns, Sparse and Overlay memories, 3 address placements: rendered rows parsed and compared with the byte map (rows, cells, ellipsis rules); the address command for every stored address +-1 and window edges.",
    "Leading/trailing ellipsis and absent bytes inside a shown row are unconstrained.", "DESIGN.md §3 C32")
PENDING = {}
def main():
    checks = []
    for i in ALL:
        if i not in CHECKS:
            continue
        eng, tech, text, note, ref = CHECKS[i]
        # The check's own Rule string (written next to the enumeration it
        # describes and copied into the evidence on every run) is the
        # authoritative statement of what is explored.
        try:
            rule = json.load(open(os.path.join(V, "evidence", i + ".json")))["coverage"]["rule"]
            if rule:
                text = rule
        except (OSError, KeyError, ValueError):
            pass
        checks.append({
            "property_id": i,
            "quick_cmd": "./check.sh %s quick" % i,
            "thorough_cmd": "./check.sh %s thorough" % i,
            "evidence_file": "/verif/evidence/%s.json" % i,
            "replay_cmd_template": "./check.sh %s quick -replay {path}" % i,
            "engine": eng,
            "level_claimed": {"category": "model_checking", "text": text, "design_ref": ref},
            "level_note": note,
            "technique": tech,
        })
    na = [{"property_id": i, "reason": PENDING.get(i, "no check registered yet: the bounded-exhaustive check designed in DESIGN.md §3 is not built/validated yet, so the property is not claimed")}
          for i in ALL if i not in CHECKS]
    m = {
        "version": 1,
        "setup_cmd": "./setup.sh",
        "hooks": {
            "guard": "verif",
            "enable": "cd /repo && go build -tags verif -overlay /verif/build/overlay.json ./verifh/cmd/<group>  (hook files live in /verif/hooks and are injected by the build overlay; /repo carries no hook commits)",
            "baseline_off_cmd": "cd /repo && GOFLAGS=-mod=mod GOPROXY=off GOSUMDB=off GOTOOLCHAIN=local go test -vet=off -count=1 ./...",
            "source_commits": [],
            "add_only": True,
        },
        "engines": [
            {"name": "ENUM", "path": "/verif/harness/eng", "serves_properties": [i for i in ALL if i in CHECKS and CHECKS[i][0] == "ENUM"],
             "kind_free_text": "hand-written bounded-exhaustive product/sequence/tree enumerator over declared alphabets, executed on the real code, sharded over cores"},
            {"name": "HIST", "path": "/verif/harness/eng", "serves_properties": [i for i in ALL if i in CHECKS and CHECKS[i][0] == "HIST"],
             "kind_free_text": "hand-written explicit-state breadth-first search over operation histories: fresh real instance + replay of the history + one more operation, compared with a reference model after every step"},
            {"name": "PROC", "path": "/verif/harness/eng", "serves_properties": [i for i in ALL if i in CHECKS and CHECKS[i][0] == "PROC"],
             "kind_free_text": "process-level driver: runs the real binary on every generated file / argument vector / pty line sequence"},
        ],
        "checks": checks,
        "not_applicable": na,
        "notes": "All checks: ./check.sh <id> quick|thorough rebuilds the harness from /repo's working tree with -tags verif and the overlay generated by gen_overlay.py. Known findings: /verif/known_findings.json.",
    }
    json.dump(m, open(os.path.join(V, "MANIFEST.json"), "w"), indent=1)
main()
