#!/usr/bin/env python3
"""Generate /verif/build/overlay.json mapping virtual paths under /repo to
files under /verif (harness packages and add-only hook files).

harness/**      -> /repo/verifh/**
harness_ui/**   -> /repo/internal/consoleui/verifh/**
hooks/<pkg>/*.go-> /repo/<pkg>/zz_verif_<name>.go   (all carry //go:build verif)

VERIF_EXTRA_OVERLAY=<json file> merges further replacements (used only for
detection demonstrations: replaces repository files without touching /repo).
"""
import json, os, sys
V = os.path.dirname(os.path.abspath(__file__))
R = os.environ.get("VERIF_REPO", "/repo")
rep = {}
def walk(src, dst):
    for d, _, fs in os.walk(os.path.join(V, src)):
        for f in fs:
            if not f.endswith(".go"):
                continue
            p = os.path.join(d, f)
            rel = os.path.relpath(p, os.path.join(V, src))
            rep[os.path.join(R, dst, rel)] = p
walk("harness", "verifh")
walk("harness_ui", "internal/consoleui/verifh")
for d, _, fs in os.walk(os.path.join(V, "hooks")):
    for f in fs:
        if f.endswith(".go"):
            p = os.path.join(d, f)
            rel = os.path.relpath(d, os.path.join(V, "hooks"))
            rep[os.path.join(R, rel, "zz_verif_" + f)] = p
extra = os.environ.get("VERIF_EXTRA_OVERLAY")
if extra:
    rep.update(json.load(open(extra))["Replace"])
out = os.environ.get("VERIF_OVERLAY_OUT", os.path.join(V, "build", "overlay.json"))
os.makedirs(os.path.dirname(out), exist_ok=True)
tmp = out + ".%d.tmp" % os.getpid()
json.dump({"Replace": rep}, open(tmp, "w"), indent=1)
os.replace(tmp, out)
