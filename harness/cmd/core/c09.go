package main

import (
	"encoding/json"
	"fmt"

	"mltwist/internal/exprtransform"
	"mltwist/pkg/expr"
	"mltwist/verifh/eng"
	"mltwist/verifh/ir"
)

// C09 — constant folding preserves meaning.

func allConst(e expr.Expr) bool {
	switch x := e.(type) {
	case expr.Const:
		return true
	case expr.Binary:
		return allConst(x.Arg1()) && allConst(x.Arg2())
	case expr.Less:
		return allConst(x.Arg1()) && allConst(x.Arg2()) && allConst(x.ExprTrue()) && allConst(x.ExprFalse())
	}
	return false
}

// foldable finds a remaining operation whose operands are all constants.
func foldable(e expr.Expr) string {
	switch x := e.(type) {
	case expr.Binary:
		_, c1 := x.Arg1().(expr.Const)
		_, c2 := x.Arg2().(expr.Const)
		if c1 && c2 {
			return ir.Show(e)
		}
		if s := foldable(x.Arg1()); s != "" {
			return s
		}
		return foldable(x.Arg2())
	case expr.Less:
		_, c1 := x.Arg1().(expr.Const)
		_, c2 := x.Arg2().(expr.Const)
		if c1 && c2 {
			return ir.Show(e)
		}
		for _, s := range []expr.Expr{x.Arg1(), x.Arg2(), x.ExprTrue(), x.ExprFalse()} {
			if f := foldable(s); f != "" {
				return f
			}
		}
	case expr.MemLoad:
		return foldable(x.Addr())
	}
	return ""
}

func kindOf(e expr.Expr) string {
	switch e.(type) {
	case expr.Binary:
		return "binary"
	case expr.Less:
		return "less"
	case expr.MemLoad:
		return "memload"
	case expr.Const:
		return "const"
	case expr.RegLoad:
		return "regload"
	}
	return "?"
}

func c09Run(ref treeRef) (*eng.Fail, bool) {
	e := ref.expr()
	ref.Show = ir.Show(e)
	before := ref.Show
	var res expr.Expr
	p, stack := eng.Catch(func() { res = exprtransform.ConstFold(e) })
	if p != nil {
		return &eng.Fail{Sig: "ConstFold panic " + eng.PanicSite(stack), What: fmt.Sprintf("ConstFold(%s) panics: %v", before, p), Case: ref}, false
	}
	folded := ir.Show(res)
	if ir.Show(e) != before {
		return &eng.Fail{Sig: "ConstFold input-mutated", What: "input tree changed by ConstFold: " + before, Case: ref}, false
	}
	if res.Width() != e.Width() {
		return &eng.Fail{Sig: "ConstFold width " + kindOf(e), What: fmt.Sprintf("ConstFold(%s) = %s has width %d", before, folded, res.Width()), Case: ref}, false
	}
	if v, wit := semDiff(e, res, e.Width()); v != nil {
		return &eng.Fail{Sig: "ConstFold value " + kindOf(e) + "/" + ref.Space, What: fmt.Sprintf("ConstFold(%s) = %s differs under %s", before, folded, wit), Case: ref}, false
	}
	if allConst(e) {
		if _, ok := res.(expr.Const); !ok {
			return &eng.Fail{Sig: "ConstFold const-tree-not-folded", What: fmt.Sprintf("ConstFold(%s) = %s is not a single constant", before, folded), Case: ref}, false
		}
	}
	if s := foldable(res); s != "" {
		return &eng.Fail{Sig: "ConstFold foldable-remains", What: fmt.Sprintf("ConstFold(%s) = %s still contains %s", before, folded, s), Case: ref}, false
	}
	// folding the SAME input object a second time must give the same result (folding must not
	// depend on, or leave behind, any state in the shared constants of the tree)
	var second expr.Expr
	if p, _ := eng.Catch(func() { second = exprtransform.ConstFold(e) }); p == nil && ir.Show(second) != folded {
		return &eng.Fail{Sig: "ConstFold not-repeatable", What: fmt.Sprintf("ConstFold(%s) = %s, but folding the same tree again gives %s", before, folded, ir.Show(second)), Case: ref}, false
	}
	var again expr.Expr
	p, stack = eng.Catch(func() { again = exprtransform.ConstFold(res) })
	if p != nil {
		return &eng.Fail{Sig: "ConstFold refold-panic " + eng.PanicSite(stack), What: fmt.Sprintf("ConstFold(ConstFold(%s)) panics: %v", before, p), Case: ref}, false
	}
	if ir.Show(again) != folded {
		return &eng.Fail{Sig: "ConstFold not-idempotent", What: fmt.Sprintf("ConstFold(%s) = %s but folding again gives %s", before, folded, ir.Show(again)), Case: ref}, false
	}
	return nil, folded != before
}

func init() {
	checks["C09"] = eng.Check{
		Rule: "ConstFold on every expression tree of the declared spaces (all trees with 1 internal node over 9 leaves and widths 1..3; all trees with 2 internal nodes over 4 leaves; thorough: all with 3 internal nodes over 2 leaves/widths 1..2; all width-gadget chains of length <=3 with widths 1..4 over 8 bases (incl. conditionals comparing operands wider than themselves) in every consumer context; chains of two decided conditionals around a non-constant expression for all 4^3 width triples; depth-1 trees at widths 8,9,16,17,255; constant-only trees with <=2 operations), each compared with the original under 9 valuations by an independent big-integer evaluator. Non-trivial = tree that folding changed.",
		Assumptions: []string{
			"semantic equality is decided on 9 valuations (register values 0..2^56, pseudo-random memory) — a difference is only reported with a concrete witness",
			"memory addresses do not wrap",
		},
		Run: func(r *eng.Run) {
			forTrees(r, treeSpacesFor(r), func(ref treeRef, e expr.Expr) {
				f, changed := c09Run(ref)
				r.Eval(1)
				if changed {
					r.Nontrivial(1)
				}
				if f != nil {
					r.Report(f)
					r.Outcome(f.Sig)
				} else if changed {
					r.Outcome("folded")
				} else {
					r.Outcome("unchanged")
				}
				if ref.Index == 777 {
					ref.Show = ir.Show(e)
					r.Sample(ref)
				}
			})
		},
		Replay: func(r *eng.Run, raw json.RawMessage) *eng.Fail {
			resetSpaces() // fresh, uncorrupted trees
			var ref treeRef
			if err := json.Unmarshal(raw, &ref); err != nil {
				panic(err)
			}
			f, _ := c09Run(ref)
			return f
		},
	}
}
