package main

import (
	"encoding/json"
	"fmt"
	"math/big"

	"mltwist/internal/exprtransform"
	"mltwist/pkg/expr"
	"mltwist/verifh/eng"
	"mltwist/verifh/ir"
)

// C10 — constant arithmetic is exact for every width.

type c10Case struct {
	Op     string `json:"op"` // add lsh rsh mul div nand less
	A      string `json:"a"`  // hex
	B      string `json:"b"`
	WA     int    `json:"wa"`
	WB     int    `json:"wb"`
	W      int    `json:"w"`
	WT, WF int    // branch widths for less
	// Spare: the operand constants are narrowed from wider ones: their byte slices have spare
	// capacity holding non-zero bytes (a legal form that Const.WithWidth produces)
	Spare bool `json:"spare,omitempty"`
}

func hexInt(s string) *big.Int {
	v, ok := new(big.Int).SetString(s, 16)
	if !ok {
		panic("bad hex " + s)
	}
	return v
}

var opByName = map[string]expr.BinaryOp{"add": expr.Add, "lsh": expr.Lsh, "rsh": expr.Rsh, "mul": expr.Mul, "div": expr.Div, "nand": expr.Nand}

func c10Run(c c10Case) *eng.Fail {
	f := c10Run1(c)
	if f != nil && c.Spare {
		f.Sig += " (operands with spare capacity)"
	}
	return f
}

func c10Run1(c c10Case) *eng.Fail {
	a, b := hexInt(c.A), hexInt(c.B)
	ca, cb := ir.Const(a, expr.Width(c.WA)), ir.Const(b, expr.Width(c.WB))
	if c.Spare {
		wide := func(k expr.Const) expr.Const {
			bs := append(append([]byte{}, k.Bytes()...), 0xa5, 0x5a, 0xc3, 0x3c, 0x99, 0x66, 0xf0, 0x0f)
			return expr.NewConst(bs, expr.Width(len(bs))).WithWidth(k.Width())
		}
		ca, cb = wide(ca), wide(cb)
	}
	w := expr.Width(c.W)
	var e expr.Expr
	var exp *big.Int
	aa, bb := ir.Adjust(ir.ConstVal(ca), w), ir.Adjust(ir.ConstVal(cb), w)
	if c.Op == "less" {
		// distinct, width-sensitive branch constants
		t := ir.Const(hexInt("a1a2a3a4a5a6a7a8a9"), expr.Width(c.WT))
		f := ir.Const(hexInt("515253545556575859"), expr.Width(c.WF))
		e = expr.NewLess(ca, cb, t, f, w)
		if aa.Cmp(bb) < 0 {
			exp = ir.Adjust(ir.ConstVal(t), w)
		} else {
			exp = ir.Adjust(ir.ConstVal(f), w)
		}
	} else {
		e = expr.NewBinary(opByName[c.Op], ca, cb, w)
		exp = ir.BinOp(opByName[c.Op], aa, bb, w)
	}
	sa, sb := ir.Show(ca), ir.Show(cb)
	var res expr.Expr
	p, stack := eng.Catch(func() { res = exprtransform.ConstFold(e) })
	if p != nil {
		return &eng.Fail{Sig: c.Op + " panic " + eng.PanicSite(stack), What: fmt.Sprintf("ConstFold(%s) panics: %v", ir.Show(e), p), Case: c}
	}
	rc, ok := res.(expr.Const)
	if !ok {
		return &eng.Fail{Sig: c.Op + " not-folded", What: fmt.Sprintf("ConstFold(%s) = %s is not a constant", ir.Show(e), ir.Show(res)), Case: c}
	}
	if rc.Width() != w {
		return &eng.Fail{Sig: c.Op + " width", What: fmt.Sprintf("ConstFold(%s) has width %d", ir.Show(e), rc.Width()), Case: c}
	}
	if got := ir.ConstVal(rc); got.Cmp(exp) != 0 {
		return &eng.Fail{Sig: c.Op + " value", What: fmt.Sprintf("ConstFold(%s) = %x, expected %x", ir.Show(e), got, exp), Case: c,
			Expected: exp.Text(16), Observed: got.Text(16)}
	}
	if ir.Show(ca) != sa || ir.Show(cb) != sb {
		return &eng.Fail{Sig: c.Op + " operand-mutated", What: "folding modified an operand constant", Case: c}
	}
	return nil
}

func init() {
	allOps := []string{"add", "lsh", "rsh", "mul", "div", "nand", "less"}
	checks["C10"] = eng.Check{
		Rule:        "ConstFold of every operator (+ Less) on constants: ALL 65536 operand pairs at widths (1,1,1); all byte-pattern operands {00,01,7f,80,ff}^w for operand/operation widths in {1,2,3}^3; boundary alphabets and every shift amount 0..8w+9, 2^64, 2^64+1 at widths {4,8,9,16,17,32,255} with narrower/equal/wider operands; the byte-pattern cases also with operand constants narrowed from wider ones (byte slices with non-zero spare capacity). Non-trivial = case whose exact result is neither 0 nor equal to the first operand.",
		Assumptions: []string{"oracle: math/big arithmetic following the documented width rules of pkg/expr"},
		Run: func(r *eng.Run) {
			do := func(c c10Case) {
				f := c10Run(c)
				r.Eval(1)
				if f != nil {
					r.Report(f)
					r.Outcome(f.Sig)
				}
			}
			nontriv := func(c c10Case) {
				// measured separately: cheap recomputation of the exact result
				if c.Op == "less" {
					r.Nontrivial(1)
					return
				}
				w := expr.Width(c.W)
				a, b := ir.Adjust(hexInt(c.A), w), ir.Adjust(hexInt(c.B), w)
				v := ir.BinOp(opByName[c.Op], a, b, w)
				if v.Sign() != 0 && v.Cmp(a) != 0 {
					r.Nontrivial(1)
				}
			}
			// (1) all pairs at width 1
			r.Par(256, func(a int) {
				for b := 0; b < 256; b++ {
					for _, op := range allOps {
						c := c10Case{Op: op, A: fmt.Sprintf("%x", a), B: fmt.Sprintf("%x", b), WA: 1, WB: 1, W: 1, WT: 1, WF: 1}
						do(c)
						nontriv(c)
					}
				}
			})
			r.Sample(c10Case{Op: "div", A: "7", B: "0", WA: 1, WB: 1, W: 1})
			// (2) byte patterns for widths 1..3
			alpha := []byte{0x00, 0x01, 0x7f, 0x80, 0xff}
			type combo struct{ wa, wb, w int }
			var combos []combo
			for wa := 1; wa <= 3; wa++ {
				for wb := 1; wb <= 3; wb++ {
					for w := 1; w <= 3; w++ {
						combos = append(combos, combo{wa, wb, w})
					}
				}
			}
			r.Par(len(combos), func(i int) {
				cb := combos[i]
				for _, a := range ir.BytePatterns(expr.Width(cb.wa), alpha) {
					for _, b := range ir.BytePatterns(expr.Width(cb.wb), alpha) {
						for _, op := range allOps {
							c := c10Case{Op: op, A: a.Text(16), B: b.Text(16), WA: cb.wa, WB: cb.wb, W: cb.w, WT: cb.wa, WF: cb.wb}
							if cs := c; true {
								cs.Spare = true
								if f := c10Run(cs); f != nil {
									r.Report(f)
									r.Outcome(f.Sig)
								}
								r.Eval(1)
							}
							do(c)
							nontriv(c)
						}
					}
				}
			})
			// every shift amount 0..33 at widths 1..3 (operand width of the amount 1..2)
			r.Sample(c10Case{Op: "lsh", A: "80ff", B: "9", WA: 2, WB: 1, W: 3})
			// (3) wide widths
			wides := []int{4, 8, 9, 16, 17, 32, 255}
			if r.Quick() {
				wides = []int{4, 8, 9, 16, 17, 255}
			}
			r.Note("wide widths %v", wides)
			type job struct {
				w, wa, wb int
			}
			var jobs []job
			for _, w := range wides {
				was, wbs := []int{w, w - 1, w + 1, 1}, []int{w, w - 1, w + 1, 1, 9}
				if r.Quick() {
					was, wbs = []int{w, w + 1, 1}, []int{w, w + 1, 2}
				}
				for _, wa := range was {
					for _, wb := range wbs {
						if wa < 1 || wa > 255 || wb < 1 || wb > 255 {
							continue
						}
						jobs = append(jobs, job{w, wa, wb})
					}
				}
			}
			r.Par(len(jobs), func(i int) {
				j := jobs[i]
				as := ir.Boundary(expr.Width(j.wa))
				bs := ir.Boundary(expr.Width(j.wb))
				// shift amounts and small divisors
				for k := 0; k <= j.w*8+9; k++ {
					bs = append(bs, big.NewInt(int64(k)))
				}
				two64 := new(big.Int).Lsh(big.NewInt(1), 64)
				bs = append(bs, two64, new(big.Int).Add(two64, big.NewInt(1)), new(big.Int).Add(two64, big.NewInt(8)))
				if r.Quick() && j.w > 32 {
					// thin the 2000+ shift amounts at width 255 in quick mode: keep byte-boundary neighbourhoods
					var thin []*big.Int
					for _, b := range bs {
						if !b.IsUint64() || b.Uint64() > uint64(j.w*8+9) || b.Uint64()%8 <= 1 || b.Uint64()%8 == 7 {
							thin = append(thin, b)
						}
					}
					bs = thin
				}
				seen := map[string]bool{}
				for _, a := range as {
					for _, b := range bs {
						if b.BitLen() > j.wb*8 {
							continue
						}
						key := a.Text(16) + "," + b.Text(16)
						if seen[key] {
							continue
						}
						seen[key] = true
						for _, op := range allOps {
							c := c10Case{Op: op, A: a.Text(16), B: b.Text(16), WA: j.wa, WB: j.wb, W: j.w, WT: j.w + 1, WF: 1}
							if c.WT > 255 {
								c.WT = 255
							}
							do(c)
							nontriv(c)
						}
					}
				}
			})
			r.Sample(c10Case{Op: "rsh", A: "ffffffffffffffffffffffffffffffffff", B: "10000000000000000", WA: 17, WB: 9, W: 17})
			r.Sample(c10Case{Op: "less", A: "1ff", B: "100", WA: 2, WB: 2, W: 1, WT: 2, WF: 1})
		},
		Replay: func(r *eng.Run, raw json.RawMessage) *eng.Fail {
			var c c10Case
			if err := json.Unmarshal(raw, &c); err != nil {
				panic(err)
			}
			return c10Run(c)
		},
	}
}
