package main

import (
	"encoding/json"
	"fmt"
	"math/big"

	"mltwist/internal/exprtransform"
	"mltwist/pkg/expr"
	"mltwist/pkg/expr/exprtools"
	"mltwist/verifh/eng"
	"mltwist/verifh/ir"
)

// C11 — expression gadgets compute their documented functions.

type c11Case struct {
	G  string `json:"gadget"`
	A  string `json:"a"` // hex
	B  string `json:"b"`
	WA int    `json:"wa"`
	WB int    `json:"wb"`
	W  int    `json:"w"`
	N  int    `json:"n,omitempty"` // integer parameter (MaskBits count, width gadget target)
}

func sgn(v *big.Int, w expr.Width) *big.Int {
	v = ir.Adjust(v, w)
	if v.Bit(int(w)*8-1) == 1 {
		return new(big.Int).Sub(v, ir.Mod(w))
	}
	return new(big.Int).Set(v)
}

func umod(v *big.Int, w expr.Width) *big.Int { return new(big.Int).Mod(v, ir.Mod(w)) }

var (
	c11T = "a5a6a7a8a9aaabacadaeaf"
	c11F = "5a595857565554535251"
)

type gadgetDef struct {
	arity int // operands taken from (A,B)
	cond  bool
	// build the gadget from operand expressions; t,f are branch exprs for conditionals
	build func(c c11Case, a, b, t, f expr.Expr) expr.Expr
	// oracle on operand values *as given* (operand widths in c) -> expected value; ok=false: outside the domain
	oracle func(c c11Case, a, b, t, f *big.Int) (*big.Int, bool)
	// outW: result width (default c.W)
	outW func(c c11Case) expr.Width
	// nonzeroOnly: result only specified as zero / non-zero
	truthy bool
}

func bsel(cond bool, t, f *big.Int, w expr.Width) *big.Int {
	if cond {
		return ir.Adjust(t, w)
	}
	return ir.Adjust(f, w)
}

var gadgets = map[string]gadgetDef{}

func init() {
	W := func(c c11Case) expr.Width { return expr.Width(c.W) }
	un := func(name string, b func(e expr.Expr, w expr.Width) expr.Expr, o func(a *big.Int, w expr.Width) *big.Int) {
		gadgets[name] = gadgetDef{arity: 1,
			build:  func(c c11Case, a, _, _, _ expr.Expr) expr.Expr { return b(a, W(c)) },
			oracle: func(c c11Case, a, _, _, _ *big.Int) (*big.Int, bool) { return o(ir.Adjust(a, W(c)), W(c)), true }}
	}
	bin := func(name string, b func(e1, e2 expr.Expr, w expr.Width) expr.Expr, o func(a, b *big.Int, w expr.Width) *big.Int) {
		gadgets[name] = gadgetDef{arity: 2,
			build: func(c c11Case, a, bb, _, _ expr.Expr) expr.Expr { return b(a, bb, W(c)) },
			oracle: func(c c11Case, a, bb, _, _ *big.Int) (*big.Int, bool) {
				return o(ir.Adjust(a, W(c)), ir.Adjust(bb, W(c)), W(c)), true
			}}
	}
	cnd := func(name string, b func(a1, a2, t, f expr.Expr, w expr.Width) expr.Expr, o func(a, b *big.Int, w expr.Width) bool) {
		gadgets[name] = gadgetDef{arity: 2, cond: true,
			build: func(c c11Case, a, bb, t, f expr.Expr) expr.Expr { return b(a, bb, t, f, W(c)) },
			oracle: func(c c11Case, a, bb, t, f *big.Int) (*big.Int, bool) {
				return bsel(o(ir.Adjust(a, W(c)), ir.Adjust(bb, W(c)), W(c)), t, f, W(c)), true
			}}
	}
	un("Negate", exprtools.Negate, func(a *big.Int, w expr.Width) *big.Int { return umod(new(big.Int).Neg(a), w) })
	un("Abs", exprtools.Abs, func(a *big.Int, w expr.Width) *big.Int { return umod(new(big.Int).Abs(sgn(a, w)), w) })
	un("BitNot", exprtools.BitNot, func(a *big.Int, w expr.Width) *big.Int {
		return new(big.Int).Xor(a, new(big.Int).Sub(ir.Mod(w), big.NewInt(1)))
	})
	gadgets["Ones"] = gadgetDef{arity: 0,
		build: func(c c11Case, _, _, _, _ expr.Expr) expr.Expr { return exprtools.Ones(W(c)) },
		oracle: func(c c11Case, _, _, _, _ *big.Int) (*big.Int, bool) {
			return new(big.Int).Sub(ir.Mod(W(c)), big.NewInt(1)), true
		}}
	gadgets["IntNegative"] = gadgetDef{arity: 1, truthy: true,
		build: func(c c11Case, a, _, _, _ expr.Expr) expr.Expr { return exprtools.IntNegative(a, W(c)) },
		oracle: func(c c11Case, a, _, _, _ *big.Int) (*big.Int, bool) {
			if sgn(a, W(c)).Sign() < 0 {
				return big.NewInt(1), true
			}
			return big.NewInt(0), true
		}}
	gadgets["Bool"] = gadgetDef{arity: 1, outW: func(c11Case) expr.Width { return 1 },
		build: func(c c11Case, a, _, _, _ expr.Expr) expr.Expr { return exprtools.Bool(a) },
		oracle: func(c c11Case, a, _, _, _ *big.Int) (*big.Int, bool) {
			if a.Sign() != 0 {
				return big.NewInt(1), true
			}
			return big.NewInt(0), true
		}}
	gadgets["Not"] = gadgetDef{arity: 1, outW: func(c11Case) expr.Width { return 1 },
		build: func(c c11Case, a, _, _, _ expr.Expr) expr.Expr { return exprtools.Not(a) },
		oracle: func(c c11Case, a, _, _, _ *big.Int) (*big.Int, bool) {
			if a.Sign() == 0 {
				return big.NewInt(1), true
			}
			return big.NewInt(0), true
		}}
	gadgets["BoolCond"] = gadgetDef{arity: 1, cond: true,
		build: func(c c11Case, a, _, t, f expr.Expr) expr.Expr { return exprtools.BoolCond(a, t, f, W(c)) },
		oracle: func(c c11Case, a, _, t, f *big.Int) (*big.Int, bool) {
			if c.WA > c.W { // documented precondition: condition not wider than w
				return nil, false
			}
			return bsel(a.Sign() != 0, t, f, W(c)), true
		}}
	gadgets["WidthGadget"] = gadgetDef{arity: 1, outW: func(c c11Case) expr.Width { return expr.Width(c.N) },
		build: func(c c11Case, a, _, _, _ expr.Expr) expr.Expr {
			return exprtools.NewWidthGadget(a, expr.Width(c.N))
		},
		oracle: func(c c11Case, a, _, _, _ *big.Int) (*big.Int, bool) { return ir.Adjust(a, expr.Width(c.N)), true }}
	// composition of two width gadgets: (a adjusted to n1 bytes) adjusted to n2 bytes; N encodes n1*256+n2
	gadgets["WidthGadget2"] = gadgetDef{arity: 1, outW: func(c c11Case) expr.Width { return expr.Width(c.N & 0xff) },
		build: func(c c11Case, a, _, _, _ expr.Expr) expr.Expr {
			return exprtools.NewWidthGadget(exprtools.NewWidthGadget(a, expr.Width(c.N>>8)), expr.Width(c.N&0xff))
		},
		oracle: func(c c11Case, a, _, _, _ *big.Int) (*big.Int, bool) {
			return ir.Adjust(ir.Adjust(a, expr.Width(c.N>>8)), expr.Width(c.N&0xff)), true
		}}
	// a narrowed value selected by a wider conditional: BoolCond(b, gadget_n(a), 0, w)
	gadgets["BoolCondNarrow"] = gadgetDef{arity: 2,
		build: func(c c11Case, a, b, _, _ expr.Expr) expr.Expr {
			return exprtools.BoolCond(b, exprtools.NewWidthGadget(a, expr.Width(c.N)), expr.Zero, W(c))
		},
		oracle: func(c c11Case, a, b, _, _ *big.Int) (*big.Int, bool) {
			if c.WB > c.W {
				return nil, false
			}
			if b.Sign() == 0 {
				return new(big.Int), true
			}
			return ir.Adjust(ir.Adjust(a, expr.Width(c.N)), W(c)), true
		}}
	bin("Sub", exprtools.Sub, func(a, b *big.Int, w expr.Width) *big.Int { return umod(new(big.Int).Sub(a, b), w) })
	bin("Mod", exprtools.Mod, func(a, b *big.Int, w expr.Width) *big.Int {
		if b.Sign() == 0 {
			return a
		}
		return new(big.Int).Mod(a, b)
	})
	bin("BitAnd", exprtools.BitAnd, func(a, b *big.Int, w expr.Width) *big.Int { return new(big.Int).And(a, b) })
	bin("BitOr", exprtools.BitOr, func(a, b *big.Int, w expr.Width) *big.Int { return new(big.Int).Or(a, b) })
	bin("BitXor", exprtools.BitXor, func(a, b *big.Int, w expr.Width) *big.Int { return new(big.Int).Xor(a, b) })
	bin("RshA", exprtools.RshA, func(a, b *big.Int, w expr.Width) *big.Int {
		s := sgn(a, w)
		if !b.IsUint64() || b.Uint64() >= uint64(w)*8 {
			if s.Sign() < 0 {
				return new(big.Int).Sub(ir.Mod(w), big.NewInt(1))
			}
			return new(big.Int)
		}
		return umod(new(big.Int).Rsh(s, uint(b.Uint64())), w) // big.Int Rsh is floor (arithmetic)
	})
	// signed operations: operands must be exactly w wide (documented "w wide values")
	sbin := func(name string, b func(e1, e2 expr.Expr, w expr.Width) expr.Expr, outMul int, o func(a, b *big.Int, w expr.Width) *big.Int) {
		gadgets[name] = gadgetDef{arity: 2,
			outW:  func(c c11Case) expr.Width { return expr.Width(c.W * outMul) },
			build: func(c c11Case, a, bb, _, _ expr.Expr) expr.Expr { return b(a, bb, W(c)) },
			oracle: func(c c11Case, a, bb, _, _ *big.Int) (*big.Int, bool) {
				if c.WA > c.W || c.WB > c.W {
					return nil, false
				}
				// each operand is a signed integer of ITS OWN width (the gadgets take the sign from the
				// operand's top bit; the front end passes the one-byte zero for x0 next to 8-byte registers)
				return o(sgn(a, expr.Width(c.WA)), sgn(bb, expr.Width(c.WB)), W(c)), true
			}}
	}
	sbin("SignedMul", exprtools.SignedMul, 2, func(sa, sb *big.Int, w expr.Width) *big.Int {
		return umod(new(big.Int).Mul(sa, sb), 2*w)
	})
	sbin("SignedDiv", exprtools.SignedDiv, 1, func(sa, sb *big.Int, w expr.Width) *big.Int {
		if sb.Sign() == 0 {
			return new(big.Int).Sub(ir.Mod(w), big.NewInt(1))
		}
		return umod(new(big.Int).Quo(sa, sb), w) // truncating; MIN/-1 = 2^(n-1) = MIN mod 2^n
	})
	sbin("SignedMod", exprtools.SignedMod, 1, func(sa, sb *big.Int, w expr.Width) *big.Int {
		// the suite's convention: |a| mod |b| (|a| if b = 0), negated iff the signs differ
		aa, ab := new(big.Int).Abs(sa), new(big.Int).Abs(sb)
		m := aa
		if ab.Sign() != 0 {
			m = new(big.Int).Mod(aa, ab)
		}
		if (sa.Sign() < 0) != (sb.Sign() < 0) {
			m = new(big.Int).Neg(m)
		}
		return umod(m, w)
	})
	gadgets["SignExtend"] = gadgetDef{arity: 2,
		build: func(c c11Case, a, b, _, _ expr.Expr) expr.Expr { return exprtools.SignExtend(a, b, W(c)) },
		oracle: func(c c11Case, a, b, _, _ *big.Int) (*big.Int, bool) {
			w := W(c)
			if !b.IsUint64() || b.Uint64() >= uint64(w)*8 { // documented: undefined above the result width
				return nil, false
			}
			bit := uint(b.Uint64())
			a = ir.Adjust(a, w)
			low := new(big.Int).And(a, new(big.Int).Sub(new(big.Int).Lsh(big.NewInt(1), bit+1), big.NewInt(1)))
			if a.Bit(int(bit)) == 1 {
				low.Sub(low, new(big.Int).Lsh(big.NewInt(1), bit+1))
			}
			return umod(low, w), true
		}}
	gadgets["MaskBits"] = gadgetDef{arity: 1,
		build: func(c c11Case, a, _, _, _ expr.Expr) expr.Expr {
			return exprtools.MaskBits(a, exprtools.BitCnt(c.N), W(c))
		},
		oracle: func(c c11Case, a, _, _, _ *big.Int) (*big.Int, bool) {
			if c.N > c.W*8 {
				return nil, false
			}
			m := new(big.Int).Sub(new(big.Int).Lsh(big.NewInt(1), uint(c.N)), big.NewInt(1))
			return new(big.Int).And(ir.Adjust(a, W(c)), m), true
		}}
	cnd("Eq", exprtools.Eq, func(a, b *big.Int, w expr.Width) bool { return a.Cmp(b) == 0 })
	cnd("Leu", exprtools.Leu, func(a, b *big.Int, w expr.Width) bool { return a.Cmp(b) <= 0 })
	cnd("Lts", exprtools.Lts, func(a, b *big.Int, w expr.Width) bool { return sgn(a, w).Cmp(sgn(b, w)) < 0 })
	cnd("Les", exprtools.Les, func(a, b *big.Int, w expr.Width) bool { return sgn(a, w).Cmp(sgn(b, w)) <= 0 })
}

func c11Run(c c11Case) (*eng.Fail, bool) {
	g := gadgets[c.G]
	a, b := hexInt(c.A), hexInt(c.B)
	wa, wb, w := expr.Width(c.WA), expr.Width(c.WB), expr.Width(c.W)
	outW := w
	if g.outW != nil {
		outW = g.outW(c)
	}
	tv, fv := hexInt(c11T), hexInt(c11F)
	tc, fc := ir.Const(tv, w), ir.Const(fv, w)
	exp, ok := g.oracle(c, ir.Adjust(a, wa), ir.Adjust(b, wb), ir.ConstVal(tc), ir.ConstVal(fc))
	if !ok {
		return nil, false
	}
	desc := fmt.Sprintf("%s(a=%x:w%d, b=%x:w%d, w=%d, n=%d)", c.G, a, wa, b, wb, w, c.N)
	// way 1: constants through the real ConstFold
	var e1 expr.Expr
	var folded expr.Expr
	p, stack := eng.Catch(func() {
		e1 = g.build(c, ir.Const(a, wa), ir.Const(b, wb), tc, fc)
		folded = exprtransform.ConstFold(e1)
	})
	if p != nil {
		return &eng.Fail{Sig: c.G + " panic " + eng.PanicSite(stack), What: desc + " panics: " + fmt.Sprint(p), Case: c}, true
	}
	if e1.Width() != outW {
		return &eng.Fail{Sig: c.G + " width", What: fmt.Sprintf("%s has width %d, expected %d", desc, e1.Width(), outW), Case: c}, true
	}
	k, isC := folded.(expr.Const)
	if !isC {
		return &eng.Fail{Sig: c.G + " fold-not-const", What: desc + " on constants does not fold to a constant: " + ir.Show(folded), Case: c}, true
	}
	cmp := func(got *big.Int) bool {
		if g.truthy {
			return (got.Sign() != 0) == (exp.Sign() != 0)
		}
		return got.Cmp(ir.Adjust(exp, outW)) == 0
	}
	if got := ir.ConstVal(k); !cmp(got) || k.Width() != outW {
		return &eng.Fail{Sig: c.G + " value(fold)", What: fmt.Sprintf("%s folds to %x (w%d), documented function gives %x", desc, got, k.Width(), exp), Case: c,
			Expected: exp.Text(16), Observed: got.Text(16)}, true
	}
	// way 2: register operands through the independent evaluator
	e2 := g.build(c, expr.NewRegLoad("a", wa), expr.NewRegLoad("b", wb), expr.NewRegLoad("t", w), expr.NewRegLoad("f", w))
	env := &ir.Env{Reg: func(k expr.Key) *big.Int {
		switch k {
		case "a":
			// register holds extra high garbage: a RegLoad of width wa must ignore it
			return new(big.Int).Add(a, new(big.Int).Lsh(big.NewInt(0x5b), uint(wa)*8))
		case "b":
			return new(big.Int).Add(b, new(big.Int).Lsh(big.NewInt(0x3c), uint(wb)*8))
		case "t":
			return tv
		}
		return fv
	}}
	if got := ir.Eval(e2, env); !cmp(got) {
		return &eng.Fail{Sig: c.G + " value(eval)", What: fmt.Sprintf("%s on registers evaluates to %x, documented function gives %x", desc, got, exp), Case: c,
			Expected: exp.Text(16), Observed: got.Text(16)}, true
	}
	// way 3: one operand constant, the other a register — the real ConstFold simplifies the
	// half-constant gadget (its gadget recognisers see constants next to symbolic operands), the
	// independent evaluator decides the value of what is left
	if g.arity == 2 {
		for side := 0; side < 2; side++ {
			oa, ob := expr.Expr(expr.NewRegLoad("a", wa)), expr.Expr(expr.NewRegLoad("b", wb))
			if side == 0 {
				ob = ir.Const(b, wb)
			} else {
				oa = ir.Const(a, wa)
			}
			var half expr.Expr
			p, stack := eng.Catch(func() {
				half = exprtransform.ConstFold(g.build(c, oa, ob, expr.NewRegLoad("t", w), expr.NewRegLoad("f", w)))
			})
			if p != nil {
				return &eng.Fail{Sig: c.G + " panic(half-constant) " + eng.PanicSite(stack), What: desc + " with one constant operand panics in ConstFold: " + fmt.Sprint(p), Case: c}, true
			}
			if got := ir.Eval(half, env); !cmp(got) || half.Width() != outW {
				return &eng.Fail{Sig: c.G + " value(half-constant fold)", What: fmt.Sprintf("%s with operand %d a register and the other a constant folds to %s (w%d), which evaluates to %x; documented function gives %x", desc, side+1, ir.Show(half), half.Width(), got, exp), Case: c,
					Expected: exp.Text(16), Observed: got.Text(16)}, true
			}
		}
	}
	// way 4: both operands are loads of ONE register (at the operand widths of the case; the
	// register holds a and garbage above): aliased operands, equal when the widths are equal
	if g.arity == 2 {
		wide := wa
		if wb > wide {
			wide = wb
		}
		content := new(big.Int).Add(ir.Adjust(a, wide), new(big.Int).Lsh(big.NewInt(0x5b), uint(wide)*8))
		if wide > wa { // bytes of the register above the first operand's width are not all zero
			content.Or(content, new(big.Int).Lsh(big.NewInt(0xc3), uint(wide-1)*8))
		}
		a4, b4 := ir.Adjust(content, wa), ir.Adjust(content, wb)
		if exp4, ok4 := g.oracle(c, a4, b4, ir.ConstVal(tc), ir.ConstVal(fc)); ok4 {
			env4 := &ir.Env{Reg: func(k expr.Key) *big.Int {
				switch k {
				case "a":
					return content
				case "t":
					return tv
				}
				return fv
			}}
			var e4 expr.Expr
			p, stack := eng.Catch(func() {
				e4 = g.build(c, expr.NewRegLoad("a", wa), expr.NewRegLoad("a", wb), expr.NewRegLoad("t", w), expr.NewRegLoad("f", w))
			})
			if p != nil {
				return &eng.Fail{Sig: c.G + " panic(one register) " + eng.PanicSite(stack), What: desc + " with both operands loads of one register panics: " + fmt.Sprint(p), Case: c}, true
			}
			got := ir.Eval(e4, env4)
			ok := got.Cmp(ir.Adjust(exp4, outW)) == 0
			if g.truthy {
				ok = (got.Sign() != 0) == (exp4.Sign() != 0)
			}
			if !ok || e4.Width() != outW {
				return &eng.Fail{Sig: c.G + " value(one register as both operands)", What: fmt.Sprintf("%s(r:w%d, r:w%d, w=%d) with r=%x evaluates to %x (w%d), documented function of (%x, %x) gives %x", c.G, wa, wb, w, content, got, e4.Width(), a4, b4, exp4), Case: c,
					Expected: exp4.Text(16), Observed: got.Text(16)}, true
			}
			var h4 expr.Expr
			if p, stack := eng.Catch(func() { h4 = exprtransform.ConstFold(e4) }); p != nil {
				return &eng.Fail{Sig: c.G + " panic(one register) " + eng.PanicSite(stack), What: desc + " with both operands loads of one register panics in ConstFold: " + fmt.Sprint(p), Case: c}, true
			}
			got = ir.Eval(h4, env4)
			ok = got.Cmp(ir.Adjust(exp4, outW)) == 0
			if g.truthy {
				ok = (got.Sign() != 0) == (exp4.Sign() != 0)
			}
			if !ok {
				return &eng.Fail{Sig: c.G + " value(one register as both operands, folded)", What: fmt.Sprintf("%s(r:w%d, r:w%d, w=%d) with r=%x folds to %s = %x, documented function gives %x", c.G, wa, wb, w, content, ir.Show(h4), got, exp4), Case: c}, true
			}
		}
	}
	// the width-gadget recogniser: whatever WidthGadgetArg accepts has the value of the argument it returns
	if c.G == "Sub" {
		for _, k := range []*big.Int{a, b, new(big.Int)} {
			sum := expr.NewBinary(expr.Add, expr.NewRegLoad("a", wa), ir.Const(k, wb), w)
			arg, ok := exprtools.WidthGadgetArg(sum)
			if !ok {
				if k.Sign() == 0 && wb == 1 {
					return &eng.Fail{Sig: "WidthGadgetArg rejects gadget", What: fmt.Sprintf("WidthGadgetArg(%s) = false", ir.Show(sum)), Case: c}, true
				}
				continue
			}
			if x, y := ir.Eval(sum, env), ir.Adjust(ir.Eval(arg, env), w); x.Cmp(y) != 0 {
				return &eng.Fail{Sig: "WidthGadgetArg accepts non-gadget", What: fmt.Sprintf("WidthGadgetArg(%s) = (%s, true) but the expression has value %x and the argument %x", ir.Show(sum), ir.Show(arg), x, y), Case: c}, true
			}
		}
	}
	return nil, true
}

func init() {
	names := []string{"Negate", "Abs", "BitNot", "Ones", "IntNegative", "Bool", "Not", "BoolCond", "WidthGadget", "WidthGadget2", "BoolCondNarrow", "Sub", "Mod",
		"BitAnd", "BitOr", "BitXor", "RshA", "SignedMul", "SignedDiv", "SignedMod", "SignExtend", "MaskBits", "Eq", "Leu", "Lts", "Les"}
	checks["C11"] = eng.Check{
		Rule: "every exported gadget constructor of pkg/expr/exprtools (plus two compositions: a width gadget of a width gadget, and a narrowed value selected by a wider BoolCond), evaluated (1) on constants through the real ConstFold, (2) on register loads through the independent evaluator and (3) for two-operand gadgets with either operand a constant and the other a register: the real ConstFold simplifies the half-constant gadget and the independent evaluator decides what is left (plus: whatever WidthGadgetArg accepts among register+constant additions has the value of the argument it returns) and (4) with both operands loads of ONE register at the operand widths of the case (aliased operands, unfolded and folded), against big-integer definitions of the documented functions: ALL 65536 operand pairs at width 1 (all 8 sign bits, all 0..8 mask counts, all shift amounts), boundary alphabets at widths 2,3,4,8,16 (SignedMul also 32,64,127) and, with operands of the gadget's own width, at 33 and 255 (thorough 32,33,64,128,255), with operands of width w and — for the unsigned/bitwise gadgets — w-1 and w+1, for the signed arithmetic gadgets also 1 and w-1 on either side. Non-trivial = case inside the gadget's documented domain.",
		Assumptions: []string{
			"signed gadgets (SignedMul/Div/Mod) are judged with operands at most w wide, each taken as a signed integer of its own width (what the gadgets implement and the front end relies on for x0); SignExtend only with sign bit < 8w; MaskBits only with count <= 8w; BoolCond only with a condition not wider than w (documented preconditions)",
			"IntNegative is judged as zero / non-zero",
			"above width 1 operand values are boundary alphabets, not all values",
		},
		Run: func(r *eng.Run) {
			do := func(c c11Case) {
				f, in := c11Run(c)
				r.Eval(1)
				if in {
					r.Nontrivial(1)
				}
				if f != nil {
					r.Report(f)
					r.Outcome(f.Sig)
				}
			}
			params := func(g string, w int) []int {
				switch g {
				case "MaskBits":
					var out []int
					for n := 0; n <= w*8; n++ {
						if w <= 2 || n%8 <= 1 || n%8 == 7 || n == 63 || n == 64 || n == 65 {
							out = append(out, n)
						}
					}
					return out
				case "WidthGadget":
					return []int{1, 2, 3, w, w + 1}
				case "WidthGadget2":
					var out []int
					for _, n1 := range []int{1, 2, 3, w, w + 1} {
						for _, n2 := range []int{1, 2, 3, w, w + 2} {
							out = append(out, n1<<8|n2)
						}
					}
					return out
				case "BoolCondNarrow":
					return []int{1, 2, w}
				}
				return []int{0}
			}
			// (1) all pairs at width 1
			r.Par(256, func(a int) {
				for _, g := range names {
					d := gadgets[g]
					for _, n := range params(g, 1) {
						if d.arity < 2 {
							do(c11Case{G: g, A: fmt.Sprintf("%x", a), B: "0", WA: 1, WB: 1, W: 1, N: n})
							continue
						}
						for b := 0; b < 256; b++ {
							do(c11Case{G: g, A: fmt.Sprintf("%x", a), B: fmt.Sprintf("%x", b), WA: 1, WB: 1, W: 1, N: n})
						}
					}
				}
			})
			r.Sample(c11Case{G: "SignedDiv", A: "80", B: "ff", WA: 1, WB: 1, W: 1})
			// (2) boundary alphabets at wider widths
			type job struct {
				g         string
				w, wa, wb int
			}
			var jobs []job
			for _, g := range names {
				ws := []int{2, 3, 4, 8, 16}
				if g == "SignedMul" {
					ws = append(ws, 32, 64, 127)
				}
				if r.Quick() {
					ws = []int{2, 3, 8, 16}
					if g == "SignedMul" {
						ws = append(ws, 127)
					}
				}
				// far end of the width range (bit counts above 255 do not fit the 8-bit width type):
				// operands of the gadget's own width only
				big := []int{32, 33, 64, 128, 255}
				if r.Quick() {
					big = []int{33, 255}
				}
				for _, w := range big {
					if g == "SignedMul" && w > 127 {
						continue // documented limit of the gadget
					}
					jobs = append(jobs, job{g, w, w, w})
				}
				for _, w := range ws {
					jobs = append(jobs, job{g, w, w, w})
					switch g {
					case "SignedMul", "SignedDiv", "SignedMod":
						// operands narrower than w (each signed at its own width), on either side
						jobs = append(jobs, job{g, w, 1, w}, job{g, w, w, 1}, job{g, w, w - 1, w}, job{g, w, w, w - 1}, job{g, w, 1, w - 1})
					default:
						jobs = append(jobs, job{g, w, w - 1, w}, job{g, w, w, w - 1}, job{g, w, w + 1, w + 1})
					}
				}
			}
			r.Par(len(jobs), func(i int) {
				j := jobs[i]
				d := gadgets[j.g]
				as := ir.Boundary(expr.Width(j.wa))
				bs := ir.Boundary(expr.Width(j.wb))
				if j.g == "RshA" || j.g == "SignExtend" {
					bs = nil
					for k := 0; k <= j.w*8+1; k++ {
						bs = append(bs, big.NewInt(int64(k)))
					}
					bs = append(bs, new(big.Int).Sub(ir.Mod(expr.Width(j.wb)), big.NewInt(1)))
				}
				if d.arity < 2 {
					bs = bs[:1]
				}
				if d.arity == 0 {
					as = as[:1]
				}
				for _, n := range params(j.g, j.w) {
					for _, a := range as {
						for _, b := range bs {
							if b.BitLen() > j.wb*8 {
								continue
							}
							do(c11Case{G: j.g, A: a.Text(16), B: b.Text(16), WA: j.wa, WB: j.wb, W: j.w, N: n})
						}
					}
				}
			})
			r.Sample(c11Case{G: "Lts", A: "8000", B: "7fff", WA: 2, WB: 2, W: 2})
			r.Sample(c11Case{G: "SignExtend", A: "1234", B: "c", WA: 2, WB: 2, W: 3})
		},
		Replay: func(r *eng.Run, raw json.RawMessage) *eng.Fail {
			var c c11Case
			if err := json.Unmarshal(raw, &c); err != nil {
				panic(err)
			}
			f, _ := c11Run(c)
			return f
		},
	}
}
