package main

import (
	"encoding/json"
	"fmt"

	"mltwist/internal/exprtransform"
	"mltwist/pkg/expr"
	"mltwist/verifh/eng"
	"mltwist/verifh/ir"
)

// C12 — width adaptation preserves value.

type c12Case struct {
	Tree treeRef `json:"tree"`
	Op   string  `json:"op"` // setwidth | purge | setwidth2 (to W, then the result to W2)
	W    int     `json:"w,omitempty"`
	W2   int     `json:"w2,omitempty"`
}

type loadInfo struct {
	key    expr.Key
	aw, lw expr.Width
}

func memLoads(e expr.Expr, out []loadInfo) []loadInfo {
	switch x := e.(type) {
	case expr.MemLoad:
		out = append(out, loadInfo{x.Key(), x.Addr().Width(), x.Width()})
		out = memLoads(x.Addr(), out)
	case expr.Binary:
		out = memLoads(x.Arg1(), out)
		out = memLoads(x.Arg2(), out)
	case expr.Less:
		out = memLoads(x.Arg1(), out)
		out = memLoads(x.Arg2(), out)
		out = memLoads(x.ExprTrue(), out)
		out = memLoads(x.ExprFalse(), out)
	}
	return out
}

func c12Run(c c12Case) (*eng.Fail, bool) {
	e := c.Tree.expr()
	c.Tree.Show = ir.Show(e)
	before := c.Tree.Show
	var res expr.Expr
	p, stack := eng.Catch(func() {
		if c.Op == "purge" {
			res = exprtransform.PurgeWidthGadgets(e)
		} else {
			res = exprtransform.SetWidth(e, expr.Width(c.W))
			if c.Op == "setwidth2" {
				res = exprtransform.SetWidth(res, expr.Width(c.W2))
			}
		}
	})
	name := c.Op
	if p != nil {
		return &eng.Fail{Sig: name + " panic " + eng.PanicSite(stack), What: fmt.Sprintf("%s(%s) panics: %v", name, before, p), Case: c}, false
	}
	if ir.Show(e) != before {
		return &eng.Fail{Sig: name + " input-mutated", What: "input changed: " + before, Case: c}, false
	}
	w := e.Width()
	if c.Op == "setwidth" {
		w = expr.Width(c.W)
	}
	if c.Op == "setwidth2" {
		w = expr.Width(c.W2)
	}
	if res.Width() != w {
		return &eng.Fail{Sig: name + " width " + kindOf(e), What: fmt.Sprintf("%s(%s,%d) = %s has width %d", name, before, c.W, ir.Show(res), res.Width()), Case: c}, false
	}
	// value: original adjusted to w
	for i := range valuations {
		v := valuations[i]
		x := ir.Eval(e, v.env())
		if c.Op == "setwidth2" {
			x = ir.Adjust(x, expr.Width(c.W)) // what the first step cuts off stays cut off
		}
		x = ir.Adjust(x, w)
		y := ir.Eval(res, v.env())
		if x.Cmp(y) != 0 {
			return &eng.Fail{Sig: name + " value " + kindOf(e), What: fmt.Sprintf("%s(%s,%d) = %s: under r1=%#x r2=%#x seed=%d original gives %x, result %x",
				name, before, c.W, ir.Show(res), v.R1, v.R2, v.Seed, x, y), Case: c}, false
		}
	}
	if c.Op == "purge" {
		a, b := memLoads(e, nil), memLoads(res, nil)
		if fmt.Sprint(a) != fmt.Sprint(b) {
			return &eng.Fail{Sig: "purge memload-address-width", What: fmt.Sprintf("PurgeWidthGadgets(%s) = %s changed (key, address width, load width) of memory loads: %v -> %v", before, ir.Show(res), a, b), Case: c}, false
		}
	}
	return nil, ir.Show(res) != before
}

func init() {
	checks["C12"] = eng.Check{
		Rule:        "SetWidth(e,w') for w' in 1..4 (on the wide space 1,8,9,17,255; thorough 1,5,8,9,16,17,254,255) and PurgeWidthGadgets(e) on every tree of the C09 spaces, plus chains SetWidth(SetWidth(e,w1),w2) (narrow then widen and the reverse; 6 width pairs on the small spaces, 2 pairs on every 4th (thorough: every) tree of the large ones), expected value = original cut to w1 and then adjusted to w2; result width and value (original adjusted to w') compared under 9 valuations; memory-load (key, address width, load width) lists compared for purge. Non-trivial = result structurally different from the input.",
		Assumptions: []string{"semantic equality decided on 9 valuations with pseudo-random memory (a changed address changes the bytes read)"},
		Run: func(r *eng.Run) {
			forTrees(r, treeSpacesFor(r), func(ref treeRef, e expr.Expr) {
				cases := []c12Case{{Tree: ref, Op: "purge"}}
				ws := []int{1, 2, 3, 4}
				if ref.Space == "wide" {
					ws = []int{1, 5, 8, 9, 16, 17, 254, 255}
					if r.Quick() {
						ws = []int{1, 8, 9, 17, 255}
					}
				}
				for _, w := range ws {
					cases = append(cases, c12Case{Tree: ref, Op: "setwidth", W: w})
				}
				// chains: narrow, then widen the result again (and the reverse)
				pairs := [][2]int{{1, 2}, {1, 4}, {2, 4}, {2, 8}, {3, 4}, {4, 2}}
				if ref.Space == "wide" {
					pairs = [][2]int{{1, 9}, {8, 16}, {5, 255}, {16, 8}}
					if r.Quick() {
						pairs = [][2]int{{1, 9}, {16, 8}}
					}
				}
				if ref.Space == "t2" || ref.Space == "const2" || ref.Space == "t3tiny" {
					pairs = [][2]int{{1, 2}, {2, 4}}
					if r.Quick() && ref.Index%4 != 0 {
						pairs = nil
					}
				}
				for _, pr := range pairs {
					cases = append(cases, c12Case{Tree: ref, Op: "setwidth2", W: pr[0], W2: pr[1]})
				}
				for _, c := range cases {
					f, changed := c12Run(c)
					r.Eval(1)
					if changed {
						r.Nontrivial(1)
					}
					if f != nil {
						r.Report(f)
						r.Outcome(f.Sig)
					} else {
						r.Outcome(fmt.Sprint(c.Op, changed))
					}
				}
				if ref.Index == 4242 {
					ref.Show = ir.Show(e)
					r.Sample(c12Case{Tree: ref, Op: "setwidth", W: 1})
				}
			})
		},
		Replay: func(r *eng.Run, raw json.RawMessage) *eng.Fail {
			resetSpaces() // fresh, uncorrupted trees
			var c c12Case
			if err := json.Unmarshal(raw, &c); err != nil {
				panic(err)
			}
			f, _ := c12Run(c)
			return f
		},
	}
}
