package main

import (
	"encoding/json"
	"fmt"
	"strings"

	"mltwist/internal/exprtransform"
	"mltwist/pkg/expr"
	"mltwist/verifh/eng"
	"mltwist/verifh/ir"
)

// C13 — enumerated possibilities cover every outcome.

func hasLess(e expr.Expr) bool {
	switch x := e.(type) {
	case expr.Less:
		return true
	case expr.Binary:
		return hasLess(x.Arg1()) || hasLess(x.Arg2())
	case expr.MemLoad:
		return hasLess(x.Addr())
	}
	return false
}

func c13Run(ref treeRef) (*eng.Fail, int) {
	e := ref.expr()
	ref.Show = ir.Show(e)
	var alts []expr.Expr
	p, stack := eng.Catch(func() { alts = exprtransform.Possibilities(e) })
	if p != nil {
		return &eng.Fail{Sig: "Possibilities panic " + eng.PanicSite(stack), What: fmt.Sprintf("Possibilities(%s) panics: %v", ref.Show, p), Case: ref}, 0
	}
	if ir.Show(e) != ref.Show {
		return &eng.Fail{Sig: "Possibilities input-mutated", What: "input changed", Case: ref}, 0
	}
	// a second call on the same object must give the same alternatives (no state kept between calls)
	var again []expr.Expr
	if p, stack := eng.Catch(func() { again = exprtransform.Possibilities(e) }); p != nil {
		return &eng.Fail{Sig: "Possibilities panic " + eng.PanicSite(stack), What: fmt.Sprintf("second Possibilities(%s) panics: %v", ref.Show, p), Case: ref}, 0
	}
	show := func(l []expr.Expr) string {
		var sb strings.Builder
		for _, a := range l {
			if a != nil {
				sb.WriteString(ir.Show(a))
			}
			sb.WriteString(";")
		}
		return sb.String()
	}
	if a, b := show(alts), show(again); a != b {
		return &eng.Fail{Sig: "Possibilities not-repeatable", What: fmt.Sprintf("Possibilities(%s) gives {%s} and then {%s}", ref.Show, a, b), Case: ref}, 0
	}
	for _, a := range alts {
		if a == nil {
			return &eng.Fail{Sig: "Possibilities nil-alternative", What: "nil alternative for " + ref.Show, Case: ref}, 0
		}
		if a.Width() != e.Width() {
			return &eng.Fail{Sig: "Possibilities alt-width " + kindOf(e), What: fmt.Sprintf("alternative %s of %s has width %d", ir.Show(a), ref.Show, a.Width()), Case: ref}, 0
		}
		if hasLess(a) {
			return &eng.Fail{Sig: "Possibilities alt-has-conditional", What: fmt.Sprintf("alternative %s of %s contains a conditional", ir.Show(a), ref.Show), Case: ref}, 0
		}
	}
	vals := valuations
	if ref.Space == "twin" {
		vals = twinValuations
	}
	for i := range vals {
		v := vals[i]
		x := ir.Eval(e, v.env())
		found := false
		for _, a := range alts {
			if ir.Adjust(ir.Eval(a, v.env()), e.Width()).Cmp(x) == 0 {
				found = true
				break
			}
		}
		if !found {
			return &eng.Fail{Sig: "Possibilities uncovered " + kindOf(e), What: fmt.Sprintf("under r1=%#x r2=%#x seed=%d %s = %x but none of its %d alternatives has that value",
				v.R1, v.R2, v.Seed, ref.Show, x, len(alts)), Case: ref}, 0
		}
	}
	return nil, len(alts)
}

func init() {
	checks["C13"] = eng.Check{
		Rule:        "Possibilities(e) on every tree of the C09 spaces (conditionals as operands, branches, conditions and memory-load addresses; up to 2 internal nodes quick, 3 thorough; plus 'twin' trees of 5..7 internal nodes: binary operations / load addresses / branches over two conditionals on the same outer condition whose arms hold independent inner conditionals, judged under all 16 combinations of the conditions): every alternative has e's width and no Less; under each of 9 valuations some alternative has e's value; a second call on the same tree gives the same alternatives. Non-trivial = tree with more than one alternative. Also the chains of two decided conditionals of C09.",
		Assumptions: []string{"coverage of outcomes is decided on 9 valuations chosen so that each Less takes both branches somewhere"},
		Run: func(r *eng.Run) {
			names := []string{"leaf", "t1", "t2", "gadget", "condchain", "twin", "wide"}
			if !r.Quick() {
				names = append(names, "t3tiny")
			}
			forTrees(r, names, func(ref treeRef, e expr.Expr) {
				f, n := c13Run(ref)
				r.Eval(1)
				if n > 1 {
					r.Nontrivial(1)
				}
				if f != nil {
					r.Report(f)
					r.Outcome(f.Sig)
				} else {
					r.Outcome(fmt.Sprint("alts=", n))
				}
				if n == 4 && r.NSamples() < 2 {
					ref.Show = ir.Show(e)
					r.Sample(ref)
				}
			})
		},
		Replay: func(r *eng.Run, raw json.RawMessage) *eng.Fail {
			resetSpaces() // fresh, uncorrupted trees
			var ref treeRef
			if err := json.Unmarshal(raw, &ref); err != nil {
				panic(err)
			}
			f, _ := c13Run(ref)
			return f
		},
	}
}
