package main

import (
	"encoding/json"
	"fmt"
	"math/big"
	"mltwist/internal/deps"
	"mltwist/internal/parser"
	"mltwist/pkg/model"
	"strings"

	"mltwist/internal/exprtransform"
	"mltwist/pkg/expr"
	"mltwist/verifh/eng"
	"mltwist/verifh/ir"
)

// C13 — enumerated possibilities cover every outcome.

func hasLess(e expr.Expr) bool {
	switch x := e.(type) {
	case expr.Less:
		return true
	case expr.Binary:
		return hasLess(x.Arg1()) || hasLess(x.Arg2())
	case expr.MemLoad:
		return hasLess(x.Addr())
	}
	return false
}

// c13Jumps: the same property through the code model — the alternatives deps derives for an
// instruction-pointer write (Possibilities, folded, minus the fall-through address). Under
// every valuation the written value is the fall-through address or the value of an alternative.
func c13Jumps(ref treeRef) *eng.Fail {
	e := ref.expr()
	ref.Show = ir.Show(e)
	for _, addr := range []uint64{0x100fc, 0xfc, 0xfffffffc, 0x1000} {
		ins := parser.Instruction{Addr: model.Addr(addr), Bytes: make([]byte, 4), Effects: []expr.Effect{expr.NewRegStore(e, expr.IPKey, e.Width())}}
		end := new(big.Int).SetUint64(addr + 4)
		var alts []expr.Expr
		p, stack := eng.Catch(func() { alts = deps.VerifJumps(ins) })
		if p != nil {
			return &eng.Fail{Sig: "jumps panic " + eng.PanicSite(stack), What: fmt.Sprintf("jump targets of ip := %s at %#x: panic %v", ref.Show, addr, p), Case: ref}
		}
		for _, a := range alts {
			if a == nil || a.Width() != e.Width() || hasLess(a) {
				return &eng.Fail{Sig: "jumps alternative malformed", What: fmt.Sprintf("jump target %v of ip := %s at %#x has another width or a conditional", a, ref.Show, addr), Case: ref}
			}
		}
		for i := range valuations {
			env := valuations[i].env()
			val := ir.Eval(e, env)
			if val.Cmp(end) == 0 {
				continue
			}
			found := false
			for _, a := range alts {
				if ir.Eval(a, env).Cmp(val) == 0 {
					found = true
					break
				}
			}
			if !found {
				v := valuations[i]
				return &eng.Fail{Sig: "jumps uncovered " + kindOf(e), What: fmt.Sprintf("ip := %s at %#x (falls through to %#x): under r1=%#x r2=%#x seed=%d the value is %#x, which is neither the fall-through address nor the value of any of the %d jump targets", ref.Show, addr, end, v.R1, v.R2, v.Seed, val, len(alts)), Case: ref}
			}
		}
	}
	return nil
}

func c13Run(ref treeRef) (*eng.Fail, int) {
	if ref.Jumps {
		return c13Jumps(ref), 2
	}
	e := ref.expr()
	ref.Show = ir.Show(e)
	var alts []expr.Expr
	p, stack := eng.Catch(func() { alts = exprtransform.Possibilities(e) })
	if p != nil {
		return &eng.Fail{Sig: "Possibilities panic " + eng.PanicSite(stack), What: fmt.Sprintf("Possibilities(%s) panics: %v", ref.Show, p), Case: ref}, 0
	}
	if ir.Show(e) != ref.Show {
		return &eng.Fail{Sig: "Possibilities input-mutated", What: "input changed", Case: ref}, 0
	}
	// a second call on the same object must give the same alternatives (no state kept between calls)
	var again []expr.Expr
	if p, stack := eng.Catch(func() { again = exprtransform.Possibilities(e) }); p != nil {
		return &eng.Fail{Sig: "Possibilities panic " + eng.PanicSite(stack), What: fmt.Sprintf("second Possibilities(%s) panics: %v", ref.Show, p), Case: ref}, 0
	}
	show := func(l []expr.Expr) string {
		var sb strings.Builder
		for _, a := range l {
			if a != nil {
				sb.WriteString(ir.Show(a))
			}
			sb.WriteString(";")
		}
		return sb.String()
	}
	if a, b := show(alts), show(again); a != b {
		return &eng.Fail{Sig: "Possibilities not-repeatable", What: fmt.Sprintf("Possibilities(%s) gives {%s} and then {%s}", ref.Show, a, b), Case: ref}, 0
	}
	for _, a := range alts {
		if a == nil {
			return &eng.Fail{Sig: "Possibilities nil-alternative", What: "nil alternative for " + ref.Show, Case: ref}, 0
		}
		if a.Width() != e.Width() {
			return &eng.Fail{Sig: "Possibilities alt-width " + kindOf(e), What: fmt.Sprintf("alternative %s of %s has width %d", ir.Show(a), ref.Show, a.Width()), Case: ref}, 0
		}
		if hasLess(a) {
			return &eng.Fail{Sig: "Possibilities alt-has-conditional", What: fmt.Sprintf("alternative %s of %s contains a conditional", ir.Show(a), ref.Show), Case: ref}, 0
		}
	}
	vals := valuations
	if ref.Space == "twin" {
		vals = twinValuations
	}
	for i := range vals {
		v := vals[i]
		x := ir.Eval(e, v.env())
		found := false
		for _, a := range alts {
			if ir.Adjust(ir.Eval(a, v.env()), e.Width()).Cmp(x) == 0 {
				found = true
				break
			}
		}
		if !found {
			return &eng.Fail{Sig: "Possibilities uncovered " + kindOf(e), What: fmt.Sprintf("under r1=%#x r2=%#x seed=%d %s = %x but none of its %d alternatives has that value",
				v.R1, v.R2, v.Seed, ref.Show, x, len(alts)), Case: ref}, 0
		}
	}
	return nil, len(alts)
}

func init() {
	checks["C13"] = eng.Check{
		Rule:        "Possibilities(e) on every tree of the C09 spaces (conditionals as operands, branches, conditions and memory-load addresses; up to 2 internal nodes quick, 3 thorough; plus 'twin' trees of 5..7 internal nodes: binary operations / load addresses / branches over two conditionals on the same outer condition whose arms hold independent inner conditionals, judged under all 16 combinations of the conditions): every alternative has e's width and no Less; under each of 9 valuations some alternative has e's value; a second call on the same tree gives the same alternatives. The same through the code model: for every tree of the leaf, 1-node and twin spaces written to the instruction pointer by an instruction at 4 addresses (fall-through address beyond the value's width, at 2^32, ...), the jump targets deps derives cover every value except the fall-through address. Non-trivial = tree with more than one alternative. Also the chains of two decided conditionals of C09.",
		Assumptions: []string{"coverage of outcomes is decided on 9 valuations chosen so that each Less takes both branches somewhere"},
		Run: func(r *eng.Run) {
			names := []string{"leaf", "t1", "t2", "gadget", "condchain", "twin", "wide"}
			if !r.Quick() {
				names = append(names, "t3tiny")
			}
			forTrees(r, []string{"leaf", "t1", "twin"}, func(ref treeRef, e expr.Expr) {
				ref.Jumps = true
				if f := c13Jumps(ref); f != nil {
					r.Report(f)
					r.Outcome(f.Sig)
				}
				r.Eval(1)
			})
			forTrees(r, names, func(ref treeRef, e expr.Expr) {
				f, n := c13Run(ref)
				r.Eval(1)
				if n > 1 {
					r.Nontrivial(1)
				}
				if f != nil {
					r.Report(f)
					r.Outcome(f.Sig)
				} else {
					r.Outcome(fmt.Sprint("alts=", n))
				}
				if n == 4 && r.NSamples() < 2 {
					ref.Show = ir.Show(e)
					r.Sample(ref)
				}
			})
		},
		Replay: func(r *eng.Run, raw json.RawMessage) *eng.Fail {
			resetSpaces() // fresh, uncorrupted trees
			var ref treeRef
			if err := json.Unmarshal(raw, &ref); err != nil {
				panic(err)
			}
			f, _ := c13Run(ref)
			return f
		},
	}
}
