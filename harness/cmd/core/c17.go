package main

import (
	"encoding/json"
	"fmt"
	"math"
	"math/bits"

	"mltwist/internal/state/interval"
	"mltwist/verifh/eng"

	"golang.org/x/exp/constraints"
)

// C17 — interval sets obey set algebra. Universe: 8 consecutive integers at
// three places of three integer types; sets are bitmasks of the universe.

type c17Case struct {
	Type string   `json:"type"` // int | uint64top | intneg | uint8top
	Op   string   `json:"op"`   // newmap | union | complement | intersect
	List [][2]int `json:"list,omitempty"`
	A    int      `json:"a"`
	B    int      `json:"b"`
	// sequences (op = "seq"): r1 = Op1(a, b); r2 = Op2(a, c) or Op2(c, a); r1, a, b, c must be unchanged afterwards
	C    int    `json:"c,omitempty"`
	Op1  string `json:"op1,omitempty"`
	Op2  string `json:"op2,omitempty"`
	Swap bool   `json:"swap,omitempty"`
	Unit bool   `json:"unit,omitempty"` // operands built from unit intervals (NewMap has to merge them)
	U    int    `json:"u,omitempty"`    // universe size (0 = 8)
	// Shared: the interval list of one operand is a prefix of the other's; both operands are
	// built by NewMap from slices of ONE array that start at the same element
	Shared bool `json:"shared_storage,omitempty"`
}

// c17U is the universe size: 8 in quick, 12 in thorough (set once per run / replay).
var c17U = 8

func maskIntervals[T constraints.Integer](m int, base T) []interval.Interval[T] {
	var out []interval.Interval[T]
	for i := 0; i < c17U; {
		if m>>i&1 == 0 {
			i++
			continue
		}
		j := i
		for j < c17U && m>>j&1 == 1 {
			j++
		}
		out = append(out, interval.New(base+T(i), base+T(j)))
		i = j
	}
	return out
}

// checkCanon verifies canonical form and returns the mask denoted.
func checkCanon[T constraints.Integer](m interval.Map[T], base T) (int, string) {
	mask := 0
	var prevEnd T
	for i := 0; i < m.Len(); i++ {
		iv := m.Index(i)
		if !(iv.Begin() < iv.End()) {
			return 0, fmt.Sprintf("empty/inverted interval [%v,%v)", iv.Begin(), iv.End())
		}
		if i > 0 && !(prevEnd < iv.Begin()) {
			return 0, fmt.Sprintf("not sorted/disjoint/non-adjacent at %d", i)
		}
		prevEnd = iv.End()
		if iv.Begin() < base || iv.End() > base+T(c17U) || iv.End() < base {
			return 0, fmt.Sprintf("interval [%v,%v) outside universe", iv.Begin(), iv.End())
		}
		for v := iv.Begin(); v < iv.End(); v++ {
			mask |= 1 << int(v-base)
		}
	}
	if len(m.Intervals()) != m.Len() {
		return 0, "Intervals() length differs from Len()"
	}
	return mask, ""
}

func c17Run[T constraints.Integer](c c17Case, base T) *eng.Fail {
	var exp int
	var got interval.Map[T]
	site := c.Op
	p, stack := eng.Catch(func() {
		switch c.Op {
		case "newmap":
			var l []interval.Interval[T]
			for _, x := range c.List {
				l = append(l, interval.New(base+T(x[0]), base+T(x[1])))
				for v := x[0]; v < x[1]; v++ {
					exp |= 1 << v
				}
			}
			got = interval.NewMap(l...)
		default:
			la, lb := maskIntervals(c.A, base), maskIntervals(c.B, base)
			if c.Shared {
				site += " (operands share storage)"
				// the shorter list becomes a prefix slice of the longer one's array
				if len(la) <= len(lb) {
					la = lb[:len(la)]
				} else {
					lb = la[:len(lb)]
				}
			}
			a := interval.NewMap(la...)
			b := interval.NewMap(lb...)
			if ma, e := checkCanon(a, base); e != "" || ma != c.A {
				panic("operand construction broken (NewMap): " + e)
			}
			switch c.Op {
			case "union":
				got, exp = interval.MapUnion(a, b), c.A|c.B
			case "complement":
				got, exp = interval.MapComplement(a, b), c.A&^c.B
			case "intersect":
				got, exp = interval.MapIntersect(a, b), c.A&c.B
			}
			// operands must be unchanged
			if ma, _ := checkCanon(a, base); ma != c.A {
				panic("first operand modified")
			}
			if mb, _ := checkCanon(b, base); mb != c.B {
				panic("second operand modified")
			}
		}
	})
	if p != nil {
		return &eng.Fail{Sig: site + " panic " + eng.PanicSite(stack), What: fmt.Sprintf("%s panics: %v", site, p), Case: c}
	}
	m, e := checkCanon(got, base)
	if e != "" {
		return &eng.Fail{Sig: site + " non-canonical", What: site + " result not canonical: " + e, Case: c}
	}
	if m != exp {
		return &eng.Fail{Sig: site + " wrong-set", What: fmt.Sprintf("%s yields set %08b, expected %08b (bit i = universe element i; operands %b and %b)", site, m, exp, c.A, c.B), Case: c, Expected: exp, Observed: m}
	}
	return nil
}

// c17Prefix: the interval list of one set is a prefix of the other's (the sets agree below the
// end of the shorter one's last interval, and the longer one has nothing adjacent to it there).
func c17Prefix(a, b int) bool {
	x := a ^ b
	if x == 0 {
		return true
	}
	k := bits.TrailingZeros64(uint64(x)) // lowest element on which the sets differ
	s := a
	if a>>k&1 == 1 {
		s = b // s is the set without element k: it must end below k-1
	}
	return s>>k == 0 && (k == 0 || s>>(k-1)&1 == 0)
}

func unitIntervals[T constraints.Integer](m int, base T) []interval.Interval[T] {
	var out []interval.Interval[T]
	for i := 0; i < c17U; i++ {
		if m>>i&1 == 1 {
			out = append(out, interval.New(base+T(i), base+T(i)+1))
		}
	}
	return out
}

func c17Op[T constraints.Integer](op string, x, y interval.Map[T]) interval.Map[T] {
	switch op {
	case "union":
		return interval.MapUnion(x, y)
	case "complement":
		return interval.MapComplement(x, y)
	}
	return interval.MapIntersect(x, y)
}

func c17Mask(op string, x, y int) int {
	switch op {
	case "union":
		return x | y
	case "complement":
		return x &^ y
	}
	return x & y
}

// c17Seq: two operations sharing the operand a; results of earlier operations and the
// operands must not be altered by later ones.
func c17Seq[T constraints.Integer](c c17Case, base T) *eng.Fail {
	mk := func(m int) interval.Map[T] {
		if c.Unit {
			return interval.NewMap(unitIntervals(m, base)...)
		}
		return interval.NewMap(maskIntervals(m, base)...)
	}
	var fail *eng.Fail
	p, stack := eng.Catch(func() {
		a, b, cc := mk(c.A), mk(c.B), mk(c.C)
		r1 := c17Op(c.Op1, a, b)
		var r2 interval.Map[T]
		exp2 := 0
		if c.Swap {
			r2, exp2 = c17Op(c.Op2, cc, a), c17Mask(c.Op2, c.C, c.A)
		} else {
			r2, exp2 = c17Op(c.Op2, a, cc), c17Mask(c.Op2, c.A, c.C)
		}
		check := func(name string, m interval.Map[T], exp int) {
			if fail != nil {
				return
			}
			got, e := checkCanon(m, base)
			if e != "" || got != exp {
				fail = &eng.Fail{Sig: "sequence alters " + name, What: fmt.Sprintf("after r1=%s(a,b); r2=%s(a,c): %s denotes %08b %s, expected %08b", c.Op1, c.Op2, name, got, e, exp), Case: c}
			}
		}
		check("second result", r2, exp2)
		check("earlier result", r1, c17Mask(c.Op1, c.A, c.B))
		check("operand a", a, c.A)
		check("operand b", b, c.B)
		check("operand c", cc, c.C)
	})
	if p != nil {
		return &eng.Fail{Sig: "sequence panic " + eng.PanicSite(stack), What: fmt.Sprintf("panics: %v", p), Case: c}
	}
	return fail
}

func c17Dispatch(c c17Case) *eng.Fail {
	if c.Op == "seq" {
		switch c.Type {
		case "int":
			return c17Seq[int](c, 0)
		case "uint64top":
			return c17Seq[uint64](c, math.MaxUint64-uint64(c17U))
		}
		return c17Seq[int](c, -4)
	}
	switch c.Type {
	case "int":
		return c17Run[int](c, 0)
	case "intneg":
		return c17Run[int](c, -4)
	case "uint64top":
		return c17Run[uint64](c, math.MaxUint64-uint64(c17U)) // end of last interval = MaxUint64
	case "uint8top":
		return c17Run[uint8](c, math.MaxUint8-uint8(c17U))
	case "int64min":
		return c17Run[int64](c, math.MinInt64)
	}
	panic("bad type")
}

func init() {
	checks["C17"] = eng.Check{
		Rule: "every list of <=3 (quick) / <=4 (thorough) non-empty intervals over a universe of 8 (quick) / 12 (thorough) integers for NewMap; all 2^U x 2^U pairs of subsets of the universe for union, complement, intersect (pairs whose interval lists are prefixes of one another also with both operands built by NewMap from slices of ONE array); at 5 placements (int at 0, int straddling 0, int64 at MinInt64, uint64 and uint8 ending at Max); sequences r1=op1(a,b), r2=op2(a,c) or op2(c,a) over all 64^3 triples of 6-bit sets in 3 relative placements x 9 operator pairs (quick: all pairs involving union, a quarter of the others), operands built directly and from unit intervals that NewMap must merge: the second result is exact and the earlier result and all operands are unchanged; large operands: over a universe of 48 integers every set of many intervals (periodic patterns of period 2..5 in every phase and run length, 9..24 intervals, those of period 4 also with each single interval removed) against every set of one or two intervals with ends on a 16-point grid and against each other, both operand orders, all three operations; NewMap of each many-interval set handed in sorted, reversed, rotated, interleaved and with every interval twice. Non-trivial = case whose expected result is a non-empty set and whose operands are both non-empty.",
		Assumptions: []string{
			"interval ends are representable (universe ends at Max, never beyond)",
			"NewMap receives only non-empty intervals (the property's domain)",
		},
		Run: func(r *eng.Run) {
			c17U = 8
			if !r.Quick() {
				c17U = 12
			}
			types := []string{"int", "intneg", "int64min", "uint64top", "uint8top"}
			var ivs [][2]int
			for b := 0; b < c17U; b++ {
				for e := b + 1; e <= c17U; e++ {
					ivs = append(ivs, [2]int{b, e})
				}
			}
			maxLen := 3
			if !r.Quick() {
				maxLen = 4
			}
			r.Note("universe=%d intervals=%d maxlist=%d types=%v", c17U, len(ivs), maxLen, types)
			for _, ty := range types {
				ty := ty
				// pairs
				r.Par(1<<c17U, func(a int) {
					for b := 0; b < 1<<c17U; b++ {
						for _, op := range []string{"union", "complement", "intersect"} {
							c := c17Case{Type: ty, Op: op, A: a, B: b, U: c17U}
							f := c17Dispatch(c)
							r.Eval(1)
							if a != 0 && b != 0 {
								r.Nontrivial(1)
							}
							if f != nil {
								r.Report(f)
								r.Outcome(f.Sig)
							} else {
								r.Outcome("ok")
							}
							// operands whose interval lists are prefixes of one another: also built from one array
							if a != 0 && b != 0 && c17Prefix(a, b) {
								c.Shared = true
								if f := c17Dispatch(c); f != nil {
									r.Report(f)
									r.Outcome(f.Sig)
								}
								r.Eval(1)
							}
						}
					}
				})
				// lists: first element sharded
				n := len(ivs)
				r.Par(n+1, func(i0 int) {
					if i0 == n {
						r.Report(c17Dispatch(c17Case{Type: ty, Op: "newmap", U: c17U}))
						r.Eval(1)
						return
					}
					var rec func(l [][2]int)
					rec = func(l [][2]int) {
						c := c17Case{Type: ty, Op: "newmap", List: append([][2]int{}, l...), U: c17U}
						f := c17Dispatch(c)
						r.Eval(1)
						if len(l) > 1 {
							r.Nontrivial(1)
						}
						if f != nil {
							r.Report(f)
						}
						if len(l) == 2 && i0 == 3 && len(l) > 1 && l[1][0] == 0 {
							r.Sample(c)
						}
						if len(l) < maxLen {
							for _, iv := range ivs {
								rec(append(l, iv))
							}
						}
					}
					rec([][2]int{ivs[i0]})
				})
			}
			// sequences sharing an operand: later operations must not alter earlier results or operands
			ops := []string{"union", "complement", "intersect"}
			r.Par(64, func(a int) {
				for b := 0; b < 64; b++ {
					for cm := 0; cm < 64; cm++ {
						// shift the three sets apart / together within the 8-element universe
						for _, sh := range [][3]uint{{0, 0, 0}, {0, 2, 2}, {0, 1, 2}} {
							A, B, C := a<<sh[0]&0xff, b<<sh[1]&0xff, cm<<sh[2]&0xff
							for _, o1 := range ops {
								for _, o2 := range ops {
									if r.Quick() && o1 != "union" && o2 != "union" && (a+b+cm)%4 != 0 {
										continue
									}
									for _, fl := range []struct{ swap, unit bool }{{false, true}, {true, false}} {
										c := c17Case{Type: []string{"int", "uint64top"}[(a+b)%2], Op: "seq", A: A, B: B, C: C, Op1: o1, Op2: o2, Swap: fl.swap, Unit: fl.unit, U: c17U}
										f := c17Dispatch(c)
										r.Eval(1)
										r.Nontrivial(1)
										if f != nil {
											r.Report(f)
											r.Outcome(f.Sig)
										}
									}
								}
							}
						}
					}
				}
			})
			// large operands: a universe of 48 integers; sets of MANY intervals (periodic patterns of
			// period 2..5, every phase and run length, 9..24 intervals; those of period 4 also with each
			// single interval removed) against sets of FEW intervals (one or two intervals with ends
			// on a 16-point grid) and against each other, both operand orders, every operation
			small := c17U
			c17U = 48
			var many, few []int
			seenM := map[int]bool{}
			addMany := func(m int) {
				if !seenM[m] && m != 0 {
					seenM[m] = true
					many = append(many, m)
				}
			}
			for p := 2; p <= 5; p++ {
				for l := 1; l < p; l++ {
					for o := 0; o < p; o++ {
						m := 0
						for i := o; i < c17U; i++ {
							if (i-o)%p < l {
								m |= 1 << i
							}
						}
						addMany(m)
						if p == 4 {
							for k := o; k < c17U; k += p {
								addMany(m &^ (((1 << l) - 1) << k))
							}
						}
					}
				}
			}
			grid := []int{0, 1, 2, 3, 5, 8, 12, 13, 14, 20, 21, 30, 31, 40, 47, 48}
			var gi []int
			for i, b := range grid {
				for _, e := range grid[i+1:] {
					gi = append(gi, (1<<e-1)&^(1<<b-1))
				}
			}
			few = append(few, gi...)
			for i, x := range gi {
				for _, y := range gi[i+1:] {
					if x&y == 0 && x&(y<<1) == 0 && x&(y>>1) == 0 {
						few = append(few, x|y)
					}
				}
			}
			r.Note("large universe=%d many-interval sets=%d few-interval sets=%d", c17U, len(many), len(few))
			bigPair := func(ty string, a, b int) {
				for _, op := range []string{"union", "complement", "intersect"} {
					for _, pr := range [][2]int{{a, b}, {b, a}} {
						c := c17Case{Type: ty, Op: op, A: pr[0], B: pr[1], U: c17U}
						f := c17Dispatch(c)
						r.Eval(1)
						r.Nontrivial(1)
						if f != nil {
							r.Report(f)
							r.Outcome(f.Sig)
						}
					}
				}
			}
			r.Par(len(many), func(i int) {
				ty := []string{"int", "uint64top"}[i%2]
				for _, f := range few {
					bigPair(ty, many[i], f)
				}
				for _, m := range many[i:] {
					bigPair(ty, many[i], m)
				}
				// NewMap of the many intervals (9..24, more than a library sort handles by insertion)
				// handed in reversed, rotated, interleaved and with every interval given twice
				var l [][2]int
				for b := 0; b < c17U; {
					if many[i]>>b&1 == 0 {
						b++
						continue
					}
					e := b
					for e < c17U && many[i]>>e&1 == 1 {
						e++
					}
					l = append(l, [2]int{b, e})
					b = e
				}
				n := len(l)
				orders := [][][2]int{l}
				rev := make([][2]int, n)
				rot := make([][2]int, n)
				var inter, twice [][2]int
				for k := range l {
					rev[n-1-k] = l[k]
					rot[(k+5)%n] = l[k]
					twice = append(twice, l[n-1-k], l[k])
				}
				for k := 0; k < n; k += 2 {
					inter = append(inter, l[k])
				}
				for k := 1; k < n; k += 2 {
					inter = append(inter, l[k])
				}
				orders = append(orders, rev, rot, inter, twice)
				for _, o := range orders {
					f := c17Dispatch(c17Case{Type: ty, Op: "newmap", List: o, U: c17U})
					r.Eval(1)
					r.Nontrivial(1)
					if f != nil {
						r.Report(f)
						r.Outcome(f.Sig)
					}
				}
			})
			c17U = small
			r.Sample(c17Case{Type: "int", Op: "seq", A: 0b11, B: 0b110000, C: 0b11000000, Op1: "union", Op2: "union", Unit: true})
			r.Sample(c17Case{Type: "int", Op: "intersect", A: 0b101, B: 0b10111})
		},
		Replay: func(r *eng.Run, raw json.RawMessage) *eng.Fail {
			var c c17Case
			if err := json.Unmarshal(raw, &c); err != nil {
				panic(err)
			}
			c17U = 8
			if c.U != 0 {
				c17U = c.U
			}
			return c17Dispatch(c)
		},
	}
}
