package main

import (
	"encoding/json"
	"fmt"
	"math/big"
	"sort"
	"strings"

	"mltwist/internal/state"
	"mltwist/internal/state/memory"
	"mltwist/pkg/expr"
	"mltwist/pkg/expr/exprtools"
	"mltwist/pkg/model"
	"mltwist/verifh/eng"
	"mltwist/verifh/ir"
)

// C18 — register state holds whole-register values.

type c18Op struct {
	Kind string `json:"kind"` // reg | regmap | mem
	Key  string `json:"key"`
	Val  int    `json:"val"`  // index into the value alphabet
	W    int    `json:"w"`    // effect width
	Addr int    `json:"addr"` // index into address alphabet (mem)
}

type c18Case struct {
	Ops []c18Op `json:"ops"`
	// ReadsAtEndOnly: the state is read only after the last operation (default: after every one)
	ReadsAtEndOnly bool `json:"reads_at_end_only,omitempty"`
}

func c18Vals() []expr.Expr {
	return []expr.Expr{
		ir.ConstU(0xa1, 1), ir.ConstU(0xb2b1, 2), ir.ConstU(0xc4c3c2c1, 4),
		expr.NewRegLoad("x", 2),
		expr.NewMemLoad("mem", ir.ConstU(0x10, 2), 4),
		expr.NewBinary(expr.Add, expr.NewRegLoad("x", 4), ir.ConstU(0x0101, 2), 3),
		// zero is a value too; and a wide constant whose low 8 bytes are zero
		ir.ConstU(0, 2),
		expr.NewConst([]byte{0, 0, 0, 0, 0, 0, 0, 0, 0x91, 0x92}, 10),
		// conditionals whose compared operands are WIDER than the conditional (the comparison is
		// made at the conditional's own width: 0 < 0x100 here, and x < x never)
		expr.NewLess(ir.ConstU(0x00010000, 4), ir.ConstU(0x00000100, 4), ir.ConstU(0x1111, 2), ir.ConstU(0x2222, 2), 2),
		expr.NewLess(expr.NewRegLoad("x", 4), expr.NewBinary(expr.Add, expr.NewRegLoad("x", 4), ir.ConstU(0x00010000, 4), 4), ir.ConstU(0x11, 1), ir.ConstU(0x22, 1), 2),
	}
}

// address alphabet: constant, foldable to constant, non-constant.
func c18Addrs() []expr.Expr {
	return []expr.Expr{
		ir.ConstU(0x20, 8),
		expr.NewBinary(expr.Add, ir.ConstU(0x20, 8), ir.ConstU(2, 1), 8),
		exprtools.Sub(ir.ConstU(0x30, 8), ir.ConstU(0x10, 8), 8),
		expr.NewRegLoad("x", 8),
		expr.NewBinary(expr.Add, expr.NewRegLoad("x", 8), ir.ConstU(4, 1), 8),
		expr.NewMemLoad("mem", ir.ConstU(0, 8), 8),
		// registers the history itself writes (with constants): the address still does not reduce
		// to a constant, whatever the register file holds
		expr.NewRegLoad("a", 8),
		expr.NewBinary(expr.Add, expr.NewRegLoad("b", 8), ir.ConstU(0x20, 1), 8),
	}
}

var c18AddrConst = []int64{0x20, 0x22, 0x20, -1, -1, -1, -1, -1}

func c18Snapshot(s *state.State) string {
	var parts []string
	for k, v := range s.Regs.Values() {
		parts = append(parts, fmt.Sprintf("%s=%s", k, ir.Show(v)))
	}
	for k, m := range s.Mems {
		bl := m.Blocks()
		for _, iv := range bl.Intervals() {
			for a := iv.Begin(); a < iv.End(); a++ {
				e, _ := m.Load(a, 1)
				parts = append(parts, fmt.Sprintf("%s[%d]=%s", k, a, ir.Show(e)))
			}
		}
	}
	sort.Strings(parts)
	return strings.Join(parts, ";")
}

func c18Run(c c18Case) (*eng.Fail, int) {
	vals, addrs := c18Vals(), c18Addrs()
	s := state.New()
	type regv struct {
		e  expr.Expr
		w  expr.Width   // write width
		ws []expr.Width // widths the value went through before (register copies)
	}
	var digests []string
	for _, v := range vals {
		digests = append(digests, ir.Show(v))
	}
	mdl := map[string]regv{}
	memMdl := memModel{}
	memMdl2 := memModel{} // memory space "a"
	trans := 0
	for i, op := range c.Ops {
		v := vals[op.Val]
		w := expr.Width(op.W)
		before := c18Snapshot(s)
		desc := fmt.Sprintf("op #%d %+v", i, op)
		switch op.Kind {
		case "reg", "regmap":
			var ok bool
			p, stack := eng.Catch(func() {
				if op.Kind == "reg" {
					ok = s.Apply(expr.NewRegStore(v, expr.Key(op.Key), w))
				} else {
					s.Regs.Store(expr.Key(op.Key), v, w)
					ok = true
				}
			})
			trans++
			if p != nil {
				return &eng.Fail{Sig: "register store panic " + eng.PanicSite(stack), What: fmt.Sprintf("%s panics: %v", desc, p), Case: c}, trans
			}
			if !ok {
				return &eng.Fail{Sig: "Apply(RegStore) refused", What: desc + ": Apply returned false for a register write", Case: c}, trans
			}
			mdl[op.Key] = regv{e: v, w: w}
		case "copy":
			// the value read from register src (a for Val 0, b for Val 1) at width w is written to op.Key at width w
			src := []string{"a", "b"}[op.Val]
			var got expr.Expr
			var ok bool
			p, stack := eng.Catch(func() {
				if got, ok = s.Regs.Load(expr.Key(src), w); ok {
					s.Regs.Store(expr.Key(op.Key), got, w)
				}
			})
			trans++
			if p != nil {
				return &eng.Fail{Sig: "register copy panic " + eng.PanicSite(stack), What: fmt.Sprintf("%s panics: %v", desc, p), Case: c}, trans
			}
			if m, written := mdl[src]; written != ok {
				return &eng.Fail{Sig: fmt.Sprintf("RegMap.Load presence %v-for-%v", ok, written), What: fmt.Sprintf("%s: Load(%s,%d) ok=%v but written=%v", desc, src, w, ok, written), Case: c}, trans
			} else if ok {
				mdl[op.Key] = regv{e: m.e, ws: append(append([]expr.Width{}, m.ws...), m.w, w), w: w}
			}
		case "mem":
			a := addrs[op.Addr]
			mkey := expr.Key("mem")
			if op.Key != "" {
				mkey = expr.Key(op.Key) // a memory space called like a register
			}
			var ok bool
			p, stack := eng.Catch(func() { ok = s.Apply(expr.NewMemStore(v, mkey, a, w)) })
			trans++
			if p != nil {
				return &eng.Fail{Sig: "Apply(MemStore) panic " + eng.PanicSite(stack), What: fmt.Sprintf("%s panics: %v", desc, p), Case: c}, trans
			}
			ca := c18AddrConst[op.Addr]
			if ok != (ca >= 0) {
				return &eng.Fail{Sig: fmt.Sprintf("Apply(MemStore) returns %v for address class %d", ok, op.Addr), What: fmt.Sprintf("%s: address %s, Apply returned %v", desc, ir.Show(a), ok), Case: c}, trans
			}
			if !ok {
				if after := c18Snapshot(s); after != before {
					return &eng.Fail{Sig: "Apply(MemStore) refused-but-changed", What: fmt.Sprintf("%s refused but state changed: %s -> %s", desc, before, after), Case: c}, trans
				}
			} else if op.Key != "" {
				memMdl2.store(int(ca)-0x1c, v, op.W)
			} else {
				memMdl.store(int(ca)-0x1c, v, op.W)
			}
		}
		// read surface after every operation (or only after the last one)
		if c.ReadsAtEndOnly && i < len(c.Ops)-1 {
			continue
		}
		for _, k := range []string{"a", "b", "c", "mem"} {
			for _, rw := range []expr.Width{1, 2, 3, 4, 8, 16, 33, 255} {
				var got expr.Expr
				var ok bool
				p, stack := eng.Catch(func() { got, ok = s.Regs.Load(expr.Key(k), rw) })
				if p != nil {
					return &eng.Fail{Sig: "RegMap.Load panic " + eng.PanicSite(stack), What: fmt.Sprintf("Load(%s,%d) panics: %v", k, rw, p), Case: c}, trans
				}
				m, written := mdl[k]
				if ok != written {
					return &eng.Fail{Sig: fmt.Sprintf("RegMap.Load presence %v-for-%v", ok, written), What: fmt.Sprintf("after %s: Load(%s,%d) ok=%v but written=%v", desc, k, rw, ok, written), Case: c}, trans
				}
				if !ok {
					continue
				}
				if got.Width() != rw {
					return &eng.Fail{Sig: "RegMap.Load width", What: fmt.Sprintf("Load(%s,%d) returned width %d", k, rw, got.Width()), Case: c}, trans
				}
				for _, v := range valuations[:5] {
					env := v.env()
					exp := ir.Eval(m.e, env)
					for _, pw := range m.ws {
						exp = ir.Adjust(exp, pw)
					}
					exp = ir.Adjust(ir.Adjust(exp, m.w), rw)
					if g := ir.Eval(got, env); g.Cmp(exp) != 0 {
						return &eng.Fail{Sig: "RegMap.Load value", What: fmt.Sprintf("after %s: Load(%s,%d) = %s evaluates to %x, expected last write (%s at width %d) = %x", desc, k, rw, ir.Show(got), g, ir.Show(m.e), m.w, exp), Case: c}, trans
					}
				}
			}
		}
		if mm, ok := s.Mems["a"]; ok || len(memMdl2) > 0 {
			if !ok {
				return &eng.Fail{Sig: "Apply(MemStore) lost", What: "memory write to space \"a\" accepted but no such memory exists", Case: c}, trans
			}
			if f := surface("State.Mems", mm, memMdl2, model.Addr(0x1c), memCase{MaxA: 12, MaxW: 4}, 0); f != nil {
				f.Case = c
				return f, trans
			}
		}
		if mm, ok := s.Mems["mem"]; ok || len(memMdl) > 0 {
			if !ok {
				return &eng.Fail{Sig: "Apply(MemStore) lost", What: "memory write accepted but no memory exists", Case: c}, trans
			}
			if f := surface("State.Mems", mm, memMdl, model.Addr(0x1c), memCase{MaxA: 12, MaxW: 4}, 0); f != nil {
				f.Case = c
				return f, trans
			}
		}
	}
	// values handed in must not have been altered (they may be shared with other holders)
	for i, v := range vals {
		if now := ir.Show(v); now != digests[i] {
			return &eng.Fail{Sig: "State alters-handed-value", What: fmt.Sprintf("the value %s handed to a write is %s after the history", digests[i], now), Case: c}, trans
		}
	}
	_ = big.NewInt
	_ = memory.NewSparse
	return nil, trans
}

func init() {
	checks["C18"] = eng.Check{
		Hist: true,
		Rule: "every history of <=3 operations over {Apply(RegStore) and RegMap.Store to keys a,b with 8 value shapes (constants of width 1,2,4, register load, memory load, binary, a zero constant, a 10-byte constant whose low 8 bytes are zero) at write widths 1,2,4 (and 8,16,40,255 for three shapes), two conditionals whose compared operands are wider than the conditional at write widths 1,2,4,8; register copies (the expression read from one register at width 1,2,4 written to the other, so that both hold one object); Apply(MemStore) with constant / foldable / non-constant addresses (8 shapes, incl. addresses reading registers the history wrote with constants) at widths 1,2,4; a register called like the memory space and a memory space called like a register} on a fresh real State (quick: <=2 operations over this alphabet and all 3-operation histories over the register-only sub-alphabet of 30 operations); after every operation (and, in a second run of each history, only after the last one) Load(k,w) for k in {a,b,c}, w in {1,2,3,4,8,16,33,255} compared (presence, width, value under 5 valuations) with the last written value adjusted to its write width then to the read width; refused memory writes must leave the full state snapshot unchanged; accepted ones are compared byte-wise; the values handed in are digest-checked after the history. Non-trivial = history with >=2 operations.",
		Run: func(r *eng.Run) {
			var alpha []c18Op
			for _, k := range []string{"a", "b"} {
				for v := 0; v < 8; v++ {
					for _, w := range []int{1, 2, 4} {
						alpha = append(alpha, c18Op{Kind: "reg", Key: k, Val: v, W: w})
						if k == "a" {
							alpha = append(alpha, c18Op{Kind: "regmap", Key: k, Val: v, W: w})
						}
					}
				}
			}
			for _, v := range []int{8, 9} {
				for _, w := range []int{1, 2, 4, 8} {
					alpha = append(alpha, c18Op{Kind: "reg", Key: "a", Val: v, W: w}, c18Op{Kind: "regmap", Key: "b", Val: v, W: w})
				}
			}
			for _, w := range []int{8, 16, 40, 255} {
				for _, v := range []int{2, 4, 5} {
					alpha = append(alpha, c18Op{Kind: "reg", Key: "a", Val: v, W: w})
				}
			}
			for a := 0; a < 8; a++ {
				for _, v := range []int{1, 3, 6, 7} {
					for _, w := range []int{1, 2, 4} {
						alpha = append(alpha, c18Op{Kind: "mem", Val: v, W: w, Addr: a})
					}
				}
			}
			// register copies (the value read from one register written to the other: both then hold one object)
			var copies []c18Op
			for _, w := range []int{1, 2, 4} {
				copies = append(copies, c18Op{Kind: "copy", Key: "b", Val: 0, W: w}, c18Op{Kind: "copy", Key: "a", Val: 1, W: w})
			}
			alpha = append(alpha, copies...)
			// name spaces: a register called "mem" and a memory space called "a"
			for _, w := range []int{1, 4} {
				alpha = append(alpha, c18Op{Kind: "reg", Key: "mem", Val: 1, W: w}, c18Op{Kind: "mem", Key: "a", Val: 1, W: w, Addr: 0}, c18Op{Kind: "mem", Key: "a", Val: 3, W: w, Addr: 1})
			}
			depth := 2
			if !r.Quick() {
				depth = 3
			}
			r.Note("alphabet=%d depth=%d", len(alpha), depth)
			if r.Quick() {
				// depth 3 over the register-only sub-alphabet: constants of widths 1,2,4 and a symbolic value
				// written to a and b at widths 1,2,4, and the register copies
				var small []c18Op
				for _, k := range []string{"a", "b"} {
					for v := 0; v < 4; v++ {
						for _, w := range []int{1, 2, 4} {
							small = append(small, c18Op{Kind: "reg", Key: k, Val: v, W: w})
						}
					}
				}
				small = append(small, copies...)
				r.Note("register-only alphabet=%d depth=3", len(small))
				r.Par(len(small)*len(small), func(ij int) {
					for _, o3 := range small {
						c := c18Case{Ops: []c18Op{small[ij/len(small)], small[ij%len(small)], o3}}
						f, t := c18Run(c)
						r.Eval(1)
						r.State(1)
						r.Trace(1)
						r.Trans(t)
						r.Nontrivial(1)
						if f != nil {
							r.Report(f)
							r.Outcome(f.Sig)
						}
					}
				})
			}
			r.Par(len(alpha), func(i0 int) {
				var rec func(ops []c18Op)
				rec = func(ops []c18Op) {
					c := c18Case{Ops: append([]c18Op{}, ops...)}
					if len(ops) > 1 {
						if f2, _ := c18Run(c18Case{Ops: c.Ops, ReadsAtEndOnly: true}); f2 != nil {
							r.Report(f2)
						}
						r.Eval(1)
					}
					f, t := c18Run(c)
					r.Eval(1)
					r.State(1)
					r.Trace(1)
					r.Trans(t)
					if len(ops) > 1 {
						r.Nontrivial(1)
					}
					if f != nil {
						r.Report(f)
						r.Outcome(f.Sig)
					}
					if len(ops) < depth {
						for _, o := range alpha {
							rec(append(ops[:len(ops):len(ops)], o))
						}
					}
				}
				rec([]c18Op{alpha[i0]})
			})
			r.Sample(c18Case{Ops: []c18Op{{Kind: "reg", Key: "a", Val: 2, W: 2}, {Kind: "mem", Val: 3, W: 4, Addr: 1}}})
		},
		Replay: func(r *eng.Run, raw json.RawMessage) *eng.Fail {
			var c c18Case
			if err := json.Unmarshal(raw, &c); err != nil {
				panic(err)
			}
			f, _ := c18Run(c)
			return f
		},
	}
}
