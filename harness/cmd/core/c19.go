package main

import (
	"encoding/json"
	"fmt"

	"mltwist/internal/opcode"
	"mltwist/verifh/eng"
)

// C19 — opcode matching is unambiguous and exact.

type c19Pat struct {
	Bytes []byte `json:"bytes"`
	Mask  []byte `json:"mask"`
}

type c19Case struct {
	Pats []c19Pat `json:"patterns"`
	// Suffix: this many fully masked bytes (0xc3) are appended to every pattern and to every
	// input string: the same matching problem with patterns longer than a machine word
	Suffix int `json:"suffix,omitempty"`
	// Shared: masks (and values) that are prefixes of one another are handed in as prefixes of
	// ONE array (same start address, different lengths), as an opcode table sharing its masks does
	Shared bool `json:"shared,omitempty"`
	// Big: a large pattern set; the inputs are all 2-byte strings with the first byte in 0..3
	// or 0x12 and any second byte, plus their 1-byte prefixes
	Big bool `json:"big,omitempty"`
}

func c19BigStrs() [][]byte {
	var out [][]byte
	for _, b0 := range []byte{0, 1, 2, 3, 0x12} {
		out = append(out, []byte{b0})
		for b1 := 0; b1 < 256; b1++ {
			out = append(out, []byte{b0, byte(b1)})
		}
	}
	return out
}

type patOp struct {
	id int
	p  c19Pat
}

func (p *patOp) Opcode() opcode.Opcode { return opcode.Opcode{Bytes: p.p.Bytes, Mask: p.p.Mask} }
func (p *patOp) Name() string          { return fmt.Sprintf("p%d", p.id) }

func (p c19Pat) wellFormed() bool {
	return len(p.Bytes) > 0 && len(p.Bytes) == len(p.Mask) && p.Mask[len(p.Mask)-1] != 0
}

func (p c19Pat) matches(s []byte) bool {
	if len(s) < len(p.Bytes) {
		return false
	}
	for i := range p.Bytes {
		if (s[i]^p.Bytes[i])&p.Mask[i] != 0 {
			return false
		}
	}
	return true
}

func patsConflict(a, b c19Pat) bool {
	n := len(a.Bytes)
	if len(b.Bytes) < n {
		n = len(b.Bytes)
	}
	for i := 0; i < n; i++ {
		if (a.Bytes[i]^b.Bytes[i])&a.Mask[i]&b.Mask[i] != 0 {
			return false
		}
	}
	return true
}

var c19Alpha = []byte{0x00, 0x01, 0x10, 0x11}

func c19Strings() [][]byte {
	out := [][]byte{{}}
	lvl := [][]byte{{}}
	for l := 0; l < 3; l++ {
		var next [][]byte
		for _, s := range lvl {
			for _, b := range c19Alpha {
				next = append(next, append(append([]byte{}, s...), b))
			}
		}
		out = append(out, next...)
		lvl = next
	}
	return out
}

var c19Strs = c19Strings()

func c19Run(c c19Case) (*eng.Fail, bool) {
	strs := c19Strs
	if c.Big {
		return c19RunOn(c, c19BigStrs())
	}
	if c.Suffix > 0 {
		orig := c
		c = c19Case{}
		for _, p := range orig.Pats {
			q := c19Pat{append([]byte{}, p.Bytes...), append([]byte{}, p.Mask...)}
			for i := 0; i < orig.Suffix; i++ {
				q.Bytes, q.Mask = append(q.Bytes, 0xc3), append(q.Mask, 0xff)
			}
			c.Pats = append(c.Pats, q)
		}
		strs = nil
		for _, s := range c19Strs {
			t := append([]byte{}, s...)
			for i := 0; i < orig.Suffix; i++ {
				t = append(t, 0xc3)
			}
			strs = append(strs, t, t[:len(t)-1], s)
		}
		c.Shared = orig.Shared
		f, ok := c19RunOn(c, strs)
		if f != nil {
			f.Sig += " (long patterns)"
			f.Case = orig
		}
		return f, ok
	}
	f, ok := c19RunOn(c, strs)
	if f != nil && c.Shared {
		f.Sig += " (shared storage)"
	}
	return f, ok
}

func c19RunOn(c c19Case, strs [][]byte) (*eng.Fail, bool) {
	ops := make([]*patOp, len(c.Pats))
	for i, p := range c.Pats {
		ops[i] = &patOp{i, c19Pat{append([]byte{}, p.Bytes...), append([]byte{}, p.Mask...)}}
	}
	if c.Shared {
		share := func(get func(*patOp) *[]byte) {
			for i := range ops {
				for j := range ops {
					a, b := get(ops[i]), get(ops[j])
					if i != j && len(*a) > 0 && len(*a) <= len(*b) && string(*a) == string((*b)[:len(*a)]) && (len(*a) < len(*b) || i > j) {
						*a = (*b)[:len(*a)] // a becomes a prefix of b's array
					}
				}
			}
		}
		share(func(o *patOp) *[]byte { return &o.p.Mask })
		share(func(o *patOp) *[]byte { return &o.p.Bytes })
	}
	var m *opcode.Matcher[*patOp]
	var err error
	p, stack := eng.Catch(func() { m, err = opcode.NewMatcher(ops) })
	if p != nil {
		return &eng.Fail{Sig: "NewMatcher panic " + eng.PanicSite(stack), What: fmt.Sprintf("NewMatcher panics: %v", p), Case: c}, false
	}
	wf := true
	for _, p := range c.Pats {
		if !p.wellFormed() {
			wf = false
		}
	}
	conflict := false
	for i := range c.Pats {
		for j := i + 1; j < len(c.Pats); j++ {
			if wf && patsConflict(c.Pats[i], c.Pats[j]) {
				conflict = true
			}
		}
	}
	should := wf && !conflict
	if (err == nil) != should {
		cls := "builds-ambiguous-set"
		if !wf {
			cls = "builds-malformed-pattern"
		}
		if err != nil {
			cls = "rejects-valid-set"
		}
		return &eng.Fail{Sig: "NewMatcher " + cls, What: fmt.Sprintf("NewMatcher(%v): err=%v but well-formed=%v ambiguous=%v", c.Pats, err, wf, conflict), Case: c}, false
	}
	if err != nil {
		return nil, false
	}
	for _, s := range strs {
		var got *patOp
		var ok bool
		p, stack := eng.Catch(func() { got, ok = m.Match(s) })
		if p != nil {
			return &eng.Fail{Sig: "Match panic " + eng.PanicSite(stack), What: fmt.Sprintf("Match(%x) panics: %v", s, p), Case: c}, true
		}
		exp := -1
		for i, p := range c.Pats {
			if p.matches(s) {
				exp = i
			}
		}
		gi := -1
		if ok {
			gi = got.id
		}
		if gi != exp {
			return &eng.Fail{Sig: "Match wrong", What: fmt.Sprintf("Match(%x) over %v = pattern %d, expected %d", s, c.Pats, gi, exp), Case: c}, true
		}
	}
	return nil, true
}

func init() {
	checks["C19"] = eng.Check{
		Rule: "patterns: every (bytes, mask) of length 1..2 over the byte alphabet {00,01,10,11} (two independent bit lanes; includes masks with zero last byte) plus empty / length-mismatched ones; every ordered set of <=2 patterns (quick) and <=3 patterns from a reduced pattern list (thorough: 3 from all length-1 patterns and a length-2 subset); NewMatcher must succeed iff all well formed and no two patterns are simultaneously matchable; on success Match(s) for every byte string s of length 0..3 over the alphabet must return the unique matching pattern or none. Every set is also run with 8 (thorough also 7 and 12) fully masked bytes appended to every pattern and input (patterns of 9..14 bytes, inputs with and without the last byte), and with masks / values that are prefixes of one another handed in as prefixes of one array. Plus a set of 64 patterns in four mask groups of 16 (and prefixes of 32..36 of it) in sorted, reversed, interleaved and every rotated order, matched against 1285 strings. Non-trivial = set that builds successfully.",
		Run: func(r *eng.Run) {
			var pats []c19Pat
			for _, b := range c19Alpha {
				for _, m := range c19Alpha {
					pats = append(pats, c19Pat{[]byte{b}, []byte{m}})
				}
			}
			n1 := len(pats)
			for _, b0 := range c19Alpha {
				for _, b1 := range c19Alpha {
					for _, m0 := range c19Alpha {
						for _, m1 := range c19Alpha {
							pats = append(pats, c19Pat{[]byte{b0, b1}, []byte{m0, m1}})
						}
					}
				}
			}
			pats = append(pats, c19Pat{[]byte{}, []byte{}}, c19Pat{[]byte{1, 1}, []byte{1}}, c19Pat{[]byte{1}, []byte{1, 1}})
			r.Note("patterns=%d strings=%d", len(pats), len(c19Strs))
			do := func(c c19Case) {
				f, built := c19Run(c)
				r.Eval(1)
				if built {
					r.Nontrivial(1)
				}
				if f != nil {
					r.Report(f)
					r.Outcome(f.Sig)
				} else {
					r.Outcome(fmt.Sprint("built=", built))
				}
			}
			do(c19Case{})
			r.Par(len(pats), func(i int) {
				do(c19Case{Pats: []c19Pat{pats[i]}})
				do(c19Case{Pats: []c19Pat{pats[i]}, Suffix: 8})
				for j := range pats {
					do(c19Case{Pats: []c19Pat{pats[i], pats[j]}})
					do(c19Case{Pats: []c19Pat{pats[i], pats[j]}, Shared: true})
					do(c19Case{Pats: []c19Pat{pats[i], pats[j]}, Suffix: 8})
					if !r.Quick() {
						do(c19Case{Pats: []c19Pat{pats[i], pats[j]}, Suffix: 7})
						do(c19Case{Pats: []c19Pat{pats[i], pats[j]}, Suffix: 12})
					}
				}
			})
			// triples
			var tri []c19Pat
			tri = append(tri, pats[:n1]...)
			for i := n1; i < len(pats)-3; i++ {
				if r.Quick() && (i-n1)%5 != 0 {
					continue
				}
				tri = append(tri, pats[i])
			}
			r.Note("triples over %d patterns", len(tri))
			r.Par(len(tri), func(i int) {
				for j := range tri {
					for k := range tri {
						do(c19Case{Pats: []c19Pat{tri[i], tri[j], tri[k]}})
						do(c19Case{Pats: []c19Pat{tri[i], tri[j], tri[k]}, Shared: true})
						do(c19Case{Pats: []c19Pat{tri[i], tri[j], tri[k]}, Suffix: 8})
					}
				}
			})
			// large sets (more patterns than a library sort handles by insertion, several mask groups
			// of more than 12 patterns each) in sorted, reversed, interleaved and every rotated order
			var big []c19Pat
			for v := 0; v < 16; v++ {
				big = append(big,
					c19Pat{[]byte{0x00, byte(v * 3)}, []byte{0xff, 0xff}},  // group 1: exact second byte
					c19Pat{[]byte{0x01, byte(v << 4)}, []byte{0xff, 0xf0}}, // group 2: high nibble
					c19Pat{[]byte{0x02, byte(v)}, []byte{0x0f, 0x0f}},      // group 3: low nibbles
					c19Pat{[]byte{0x03 | byte(v)<<4}, []byte{0xff}},        // group 4: one byte
				)
			}
			nb := len(big)
			permOf := func(f func(i int) int) []c19Pat {
				out := make([]c19Pat, nb)
				for i := range out {
					out[i] = big[f(i)]
				}
				return out
			}
			bigOrders := [][]c19Pat{big, permOf(func(i int) int { return nb - 1 - i }), permOf(func(i int) int { return (i*4 + i/16) % nb })}
			for k := 1; k < nb; k++ {
				k := k
				bigOrders = append(bigOrders, permOf(func(i int) int { return (i + k) % nb }))
			}
			r.Par(len(bigOrders), func(i int) {
				do(c19Case{Pats: bigOrders[i], Big: true})
				do(c19Case{Pats: bigOrders[i][:nb/2+i%5], Big: true})
			})
			r.Sample(c19Case{Pats: []c19Pat{{[]byte{0x01}, []byte{0x01}}, {[]byte{0x10}, []byte{0x10}}}})
			r.Sample(c19Case{Pats: []c19Pat{{[]byte{0x01, 0x10}, []byte{0x11, 0x10}}, {[]byte{0x00}, []byte{0x01}}}, Suffix: 8})
		},
		Replay: func(r *eng.Run, raw json.RawMessage) *eng.Fail {
			var c c19Case
			if err := json.Unmarshal(raw, &c); err != nil {
				panic(err)
			}
			f, _ := c19Run(c)
			return f
		},
	}
}
