package main

import (
	"encoding/json"
	"fmt"
	"math"
	"math/big"
	"strings"

	"mltwist/pkg/expr"
	"mltwist/verifh/eng"
	"mltwist/verifh/ir"
)

// C27 — constants encode integers exactly.

type c27Case struct {
	Op   string `json:"op"`   // uint | int | from | read | copy | withwidth
	Type string `json:"type"` // u8 u16 u32 u64 i8 i16 i32 i64
	Val  string `json:"val"`  // decimal (or hex bytes for read)
	W    int    `json:"w"`
}

// defined (named) integer types: legal type arguments of the generic constructors
type (
	nU8  uint8
	nU16 uint16
	nU32 uint32
	nU64 uint64
	nI8  int8
	nI16 int16
	nI32 int32
	nI64 int64
)

func mkConst(ty string, v *big.Int, w expr.Width) expr.Const {
	switch ty {
	case "nu8":
		return expr.NewConstUint(nU8(v.Uint64()), w)
	case "nu16":
		return expr.NewConstUint(nU16(v.Uint64()), w)
	case "nu32":
		return expr.NewConstUint(nU32(v.Uint64()), w)
	case "nu64":
		return expr.NewConstUint(nU64(v.Uint64()), w)
	case "ni8":
		return expr.NewConstInt(nI8(v.Int64()), w)
	case "ni16":
		return expr.NewConstInt(nI16(v.Int64()), w)
	case "ni32":
		return expr.NewConstInt(nI32(v.Int64()), w)
	case "ni64":
		return expr.NewConstInt(nI64(v.Int64()), w)
	case "u8":
		return expr.NewConstUint(uint8(v.Uint64()), w)
	case "u16":
		return expr.NewConstUint(uint16(v.Uint64()), w)
	case "u32":
		return expr.NewConstUint(uint32(v.Uint64()), w)
	case "u64":
		return expr.NewConstUint(v.Uint64(), w)
	case "i8":
		return expr.NewConstInt(int8(v.Int64()), w)
	case "i16":
		return expr.NewConstInt(int16(v.Int64()), w)
	case "i32":
		return expr.NewConstInt(int32(v.Int64()), w)
	case "i64":
		return expr.NewConstInt(v.Int64(), w)
	}
	panic(ty)
}

func fromConst(ty string, v *big.Int) expr.Const {
	switch ty {
	case "nu8":
		return expr.ConstFromUint(nU8(v.Uint64()))
	case "nu16":
		return expr.ConstFromUint(nU16(v.Uint64()))
	case "nu32":
		return expr.ConstFromUint(nU32(v.Uint64()))
	case "nu64":
		return expr.ConstFromUint(nU64(v.Uint64()))
	case "ni8":
		return expr.ConstFromInt(nI8(v.Int64()))
	case "ni16":
		return expr.ConstFromInt(nI16(v.Int64()))
	case "ni32":
		return expr.ConstFromInt(nI32(v.Int64()))
	case "ni64":
		return expr.ConstFromInt(nI64(v.Int64()))
	case "u8":
		return expr.ConstFromUint(uint8(v.Uint64()))
	case "u16":
		return expr.ConstFromUint(uint16(v.Uint64()))
	case "u32":
		return expr.ConstFromUint(uint32(v.Uint64()))
	case "u64":
		return expr.ConstFromUint(v.Uint64())
	case "i8":
		return expr.ConstFromInt(int8(v.Int64()))
	case "i16":
		return expr.ConstFromInt(int16(v.Int64()))
	case "i32":
		return expr.ConstFromInt(int32(v.Int64()))
	case "i64":
		return expr.ConstFromInt(v.Int64())
	}
	panic(ty)
}

var tySize = map[string]int{"u8": 1, "u16": 2, "u32": 4, "u64": 8, "i8": 1, "i16": 2, "i32": 4, "i64": 8,
	"nu8": 1, "nu16": 2, "nu32": 4, "nu64": 8, "ni8": 1, "ni16": 2, "ni32": 4, "ni64": 8}

func c27Run(c c27Case) *eng.Fail {
	w := expr.Width(c.W)
	switch c.Op {
	case "make", "from":
		v, _ := new(big.Int).SetString(c.Val, 10)
		signed := strings.TrimPrefix(c.Type, "n")[0] == 'i'
		if c.Op == "from" {
			w = expr.Width(tySize[c.Type])
		}
		// expected: fits?
		var fits bool
		if signed {
			half := new(big.Int).Lsh(big.NewInt(1), uint(w)*8-1)
			fits = v.Cmp(new(big.Int).Neg(half)) >= 0 && v.Cmp(half) < 0
		} else {
			fits = v.Cmp(ir.Mod(w)) < 0
		}
		var got expr.Const
		p, _ := eng.Catch(func() {
			if c.Op == "from" {
				got = fromConst(c.Type, v)
			} else {
				got = mkConst(c.Type, v, w)
			}
		})
		if p != nil && fits {
			return &eng.Fail{Sig: c.Op + " rejects-in-range " + c.Type[:1], What: fmt.Sprintf("%s(%s %s, w=%d) panics although in range: %v", c.Op, c.Type, c.Val, w, p), Case: c}
		}
		if p == nil && !fits {
			return &eng.Fail{Sig: c.Op + " accepts-out-of-range " + c.Type[:1], What: fmt.Sprintf("%s(%s %s, w=%d) accepted although outside the range of %d bytes (got %s)", c.Op, c.Type, c.Val, w, w, ir.Show(got)), Case: c}
		}
		if p != nil {
			return nil
		}
		if got.Width() != w || len(got.Bytes()) != int(w) {
			return &eng.Fail{Sig: c.Op + " width", What: fmt.Sprintf("%s(%s %s, w=%d) has width %d", c.Op, c.Type, c.Val, w, got.Width()), Case: c}
		}
		exp := new(big.Int).Mod(v, ir.Mod(w)) // two's complement
		if ir.ConstVal(got).Cmp(exp) != 0 {
			return &eng.Fail{Sig: c.Op + " encoding " + c.Type[:1], What: fmt.Sprintf("%s(%s %s, w=%d) encodes %x, expected %x", c.Op, c.Type, c.Val, w, ir.ConstVal(got), exp), Case: c}
		}
	case "read":
		// Val = hex value, W = const width; read back as every unsigned type
		v, _ := new(big.Int).SetString(c.Val, 16)
		k := ir.Const(v, w)
		before := ir.Show(k)
		type res struct {
			v    uint64
			fits bool
		}
		var got res
		size := tySize[c.Type]
		p, stack := eng.Catch(func() {
			switch c.Type {
			case "nu8":
				x, f := expr.ConstUint[nU8](k)
				got = res{uint64(x), f}
			case "nu16":
				x, f := expr.ConstUint[nU16](k)
				got = res{uint64(x), f}
			case "nu32":
				x, f := expr.ConstUint[nU32](k)
				got = res{uint64(x), f}
			case "nu64":
				x, f := expr.ConstUint[nU64](k)
				got = res{uint64(x), f}
			case "u8":
				x, f := expr.ConstUint[uint8](k)
				got = res{uint64(x), f}
			case "u16":
				x, f := expr.ConstUint[uint16](k)
				got = res{uint64(x), f}
			case "u32":
				x, f := expr.ConstUint[uint32](k)
				got = res{uint64(x), f}
			case "u64":
				x, f := expr.ConstUint[uint64](k)
				got = res{x, f}
			}
		})
		if p != nil {
			return &eng.Fail{Sig: "ConstUint panic " + eng.PanicSite(stack), What: fmt.Sprintf("ConstUint[%s](%s) panics: %v", c.Type, before, p), Case: c}
		}
		low := new(big.Int).Mod(v, new(big.Int).Lsh(big.NewInt(1), uint(size)*8))
		fits := v.BitLen() <= size*8
		if got.v != low.Uint64() || got.fits != fits {
			return &eng.Fail{Sig: "ConstUint value " + c.Type, What: fmt.Sprintf("ConstUint[%s](%s) = (%#x,%v), expected (%#x,%v)", c.Type, before, got.v, got.fits, low.Uint64(), fits), Case: c}
		}
		if ir.Show(k) != before {
			return &eng.Fail{Sig: "ConstUint mutates", What: "ConstUint changed the constant", Case: c}
		}
	case "copy":
		// NewConst(b, w) with len(b) <,=,> w; then mutate b.
		v, _ := new(big.Int).SetString(c.Val, 16)
		// the source is a window of a larger buffer: it has spare capacity behind it (sentinel bytes)
		backing := make([]byte, len(c.Val)/2+int(w)+8)
		for i := range backing {
			backing[i] = 0xee
		}
		src := backing[:len(c.Val)/2]
		for i := range src {
			src[i] = 0
		}
		be := v.Bytes()
		for i := range be {
			if i < len(src) {
				src[i] = be[len(be)-1-i]
			}
		}
		orig := append([]byte{}, src...)
		var k expr.Const
		p, stack := eng.Catch(func() { k = expr.NewConst(src, w) })
		if p != nil {
			return &eng.Fail{Sig: "NewConst panic " + eng.PanicSite(stack), What: fmt.Sprintf("NewConst(%x,%d) panics: %v", orig, w, p), Case: c}
		}
		exp := make([]byte, w)
		copy(exp, orig)
		if k.Width() != w || fmt.Sprintf("%x", k.Bytes()) != fmt.Sprintf("%x", exp) {
			return &eng.Fail{Sig: "NewConst bytes", What: fmt.Sprintf("NewConst(%x,%d) = %x", orig, w, k.Bytes()), Case: c}
		}
		for i := len(src); i < len(backing); i++ {
			if backing[i] != 0xee {
				return &eng.Fail{Sig: "NewConst writes-behind-source", What: fmt.Sprintf("NewConst(%x,%d) wrote into the spare capacity of the slice it was given", orig, w), Case: c}
			}
		}
		for i := range src {
			src[i] ^= 0xff
		}
		if fmt.Sprintf("%x", k.Bytes()) != fmt.Sprintf("%x", exp) {
			return &eng.Fail{Sig: "NewConst aliases-source", What: fmt.Sprintf("constant created from %x (w=%d) changed to %x when the source slice was modified", orig, w, k.Bytes()), Case: c}
		}
		// WithWidth to every width: value adjusted; growing result must not alias
		for nw := expr.Width(1); nw <= w+2; nw++ {
			var k2 expr.Const
			p, stack := eng.Catch(func() { k2 = k.WithWidth(nw) })
			if p != nil {
				return &eng.Fail{Sig: "WithWidth panic " + eng.PanicSite(stack), What: fmt.Sprintf("%s.WithWidth(%d) panics: %v", ir.Show(k), nw, p), Case: c}
			}
			e2 := make([]byte, nw)
			copy(e2, exp)
			if k2.Width() != nw || fmt.Sprintf("%x", k2.Bytes()) != fmt.Sprintf("%x", e2) {
				return &eng.Fail{Sig: "WithWidth bytes", What: fmt.Sprintf("%s.WithWidth(%d) = %x", ir.Show(k), nw, k2.Bytes()), Case: c}
			}
			if fmt.Sprintf("%x", k.Bytes()) != fmt.Sprintf("%x", exp) {
				return &eng.Fail{Sig: "WithWidth mutates-receiver", What: "WithWidth changed the receiver", Case: c}
			}
			if !k2.Equal(ir.Const(ir.Adjust(ir.ConstVal(k), nw), nw)) {
				return &eng.Fail{Sig: "Equal mismatch", What: "Const.Equal false for equal constants", Case: c}
			}
			// chains: the result re-widthed again (narrowed bytes must not come back)
			for nw2 := expr.Width(1); nw2 <= w+2; nw2++ {
				var k3 expr.Const
				p, stack := eng.Catch(func() { k3 = k2.WithWidth(nw2) })
				if p != nil {
					return &eng.Fail{Sig: "WithWidth panic " + eng.PanicSite(stack), What: fmt.Sprintf("%s.WithWidth(%d).WithWidth(%d) panics: %v", ir.Show(k), nw, nw2, p), Case: c}
				}
				e3 := make([]byte, nw2)
				copy(e3, e2)
				if k3.Width() != nw2 || fmt.Sprintf("%x", k3.Bytes()) != fmt.Sprintf("%x", e3) {
					return &eng.Fail{Sig: "WithWidth chain bytes", What: fmt.Sprintf("%s.WithWidth(%d).WithWidth(%d) = %x, expected %x", ir.Show(k), nw, nw2, k3.Bytes(), e3), Case: c}
				}
				if fmt.Sprintf("%x", k2.Bytes()) != fmt.Sprintf("%x", e2) || fmt.Sprintf("%x", k.Bytes()) != fmt.Sprintf("%x", exp) {
					return &eng.Fail{Sig: "WithWidth mutates-receiver", What: "a chained WithWidth changed an earlier constant", Case: c}
				}
			}
		}
	}
	return nil
}

func init() {
	checks["C27"] = eng.Check{
		Rule: "NewConstUint/NewConstInt: ALL uint8,int8,uint16,int16 values x widths 1..4; uint32/int32/uint64/int64 boundary alphabets (every 2^k, 2^k-1, 2^k+1 and negatives) x widths 1..9, 15..17, 31..33, 39, 40, 63..65, 128, 200, 255; ConstFromUint/Int on the same values; ConstUint[uint8..uint64] on every constant of width 1..3 over bytes {00,01,7f,80,ff} and boundary constants of widths 4..9, and on constants of widths 17,32,33,64,255 with one non-zero byte at every position; NewConst with shorter/equal/longer source slices followed by mutation of the source, the same through defined (named) integer types as type arguments; WithWidth to every width and every chain WithWidth(w1).WithWidth(w2). Non-trivial = make case where the value is outside the range of at least one smaller width (i.e. not in -128..127).",
		Run: func(r *eng.Run) {
			do := func(c c27Case) {
				f := c27Run(c)
				r.Eval(1)
				if f != nil {
					r.Report(f)
					r.Outcome(f.Sig)
				} else {
					r.Outcome("ok " + c.Op)
				}
			}
			// all 8- and 16-bit values
			r.Par(65536, func(i int) {
				for w := 1; w <= 4; w++ {
					do(c27Case{Op: "make", Type: "u16", Val: fmt.Sprint(i), W: w})
					do(c27Case{Op: "make", Type: "i16", Val: fmt.Sprint(int16(uint16(i))), W: w})
					if i < 256 {
						do(c27Case{Op: "make", Type: "u8", Val: fmt.Sprint(i), W: w})
						do(c27Case{Op: "make", Type: "i8", Val: fmt.Sprint(int8(uint8(i))), W: w})
					}
					if i > 127 {
						r.Nontrivial(2)
					}
				}
				do(c27Case{Op: "from", Type: "u16", Val: fmt.Sprint(i)})
				do(c27Case{Op: "from", Type: "i16", Val: fmt.Sprint(int16(uint16(i)))})
				if i < 256 {
					do(c27Case{Op: "from", Type: "u8", Val: fmt.Sprint(i)})
					do(c27Case{Op: "from", Type: "i8", Val: fmt.Sprint(int8(uint8(i)))})
				}
			})
			// 32/64-bit boundary values
			var us []uint64
			for k := 0; k < 64; k++ {
				p := uint64(1) << k
				us = append(us, p, p-1, p+1)
			}
			us = append(us, 0, math.MaxUint64, math.MaxUint64-1, 200, 0x8000, 0xff80, 0xc8)
			for _, u := range us {
				for _, w := range []int{1, 2, 3, 4, 5, 6, 7, 8, 9, 15, 16, 17, 31, 32, 33, 39, 40, 63, 64, 65, 128, 200, 255} {
					do(c27Case{Op: "make", Type: "u64", Val: fmt.Sprint(u), W: w})
					do(c27Case{Op: "make", Type: "i64", Val: fmt.Sprint(int64(u)), W: w})
					do(c27Case{Op: "make", Type: "i64", Val: fmt.Sprint(-int64(u)), W: w})
					do(c27Case{Op: "make", Type: "u32", Val: fmt.Sprint(uint32(u)), W: w})
					do(c27Case{Op: "make", Type: "i32", Val: fmt.Sprint(int32(u)), W: w})
					do(c27Case{Op: "make", Type: "i32", Val: fmt.Sprint(-int32(u)), W: w})
					r.Nontrivial(6)
				}
				for _, ty := range []string{"u32", "u64"} {
					do(c27Case{Op: "from", Type: ty, Val: fmt.Sprint(u & (1<<(uint(tySize[ty])*8-1)<<1 - 1))})
				}
				do(c27Case{Op: "from", Type: "i64", Val: fmt.Sprint(int64(u))})
				do(c27Case{Op: "from", Type: "i32", Val: fmt.Sprint(int32(u))})
			}
			for _, w := range []int{16, 31, 32, 33, 64, 255} {
				for _, v := range []int{0, 1, 127, 128, 255, 256, 32767, 32768, 65535} {
					do(c27Case{Op: "make", Type: "u16", Val: fmt.Sprint(v), W: w})
					do(c27Case{Op: "make", Type: "i16", Val: fmt.Sprint(int16(uint16(v))), W: w})
					do(c27Case{Op: "make", Type: "nu16", Val: fmt.Sprint(v), W: w})
					do(c27Case{Op: "make", Type: "ni16", Val: fmt.Sprint(int16(uint16(v))), W: w})
					do(c27Case{Op: "from", Type: "nu16", Val: fmt.Sprint(v)})
					do(c27Case{Op: "from", Type: "ni16", Val: fmt.Sprint(int16(uint16(v)))})
					if v < 256 {
						do(c27Case{Op: "make", Type: "nu8", Val: fmt.Sprint(v), W: w})
						do(c27Case{Op: "make", Type: "ni8", Val: fmt.Sprint(int8(uint8(v))), W: w})
						do(c27Case{Op: "from", Type: "nu8", Val: fmt.Sprint(v)})
						do(c27Case{Op: "from", Type: "ni8", Val: fmt.Sprint(int8(uint8(v)))})
						do(c27Case{Op: "make", Type: "u8", Val: fmt.Sprint(v), W: w})
						do(c27Case{Op: "make", Type: "i8", Val: fmt.Sprint(int8(uint8(v))), W: w})
					}
				}
			}
			r.Sample(c27Case{Op: "make", Type: "i16", Val: "200", W: 1})
			// read back
			alpha := []byte{0x00, 0x01, 0x7f, 0x80, 0xff}
			for w := 1; w <= 3; w++ {
				for _, v := range ir.BytePatterns(expr.Width(w), alpha) {
					for _, ty := range []string{"u8", "u16", "u32", "u64", "nu8", "nu16", "nu32", "nu64"} {
						do(c27Case{Op: "read", Type: ty, Val: v.Text(16), W: w})
					}
					do(c27Case{Op: "copy", Val: fmt.Sprintf("%0*x", 2*w, v), W: w})
					do(c27Case{Op: "copy", Val: fmt.Sprintf("%0*x", 2*w, v), W: w + 1})
					if w > 1 {
						do(c27Case{Op: "copy", Val: fmt.Sprintf("%0*x", 2*w, v), W: w - 1})
					}
				}
			}
			for _, w := range []int{4, 5, 8, 9, 16} {
				for _, v := range ir.Boundary(expr.Width(w)) {
					for _, ty := range []string{"u8", "u16", "u32", "u64"} {
						do(c27Case{Op: "read", Type: ty, Val: v.Text(16), W: w})
					}
					do(c27Case{Op: "copy", Val: fmt.Sprintf("%0*x", 2*w, v), W: w})
				}
			}
			// wide constants: exactly one non-zero byte at every position (and with a low byte too),
			// all ones: the "fits" answer depends on bytes far above the target type
			for _, w := range []int{17, 32, 33, 64, 255} {
				var vals []*big.Int
				for pos := 0; pos < w; pos++ {
					one := new(big.Int).Lsh(big.NewInt(0x80), uint(pos)*8)
					vals = append(vals, one, new(big.Int).Or(one, big.NewInt(0x7f)))
				}
				vals = append(vals, new(big.Int).Sub(ir.Mod(expr.Width(w)), big.NewInt(1)), new(big.Int))
				for _, v := range vals {
					for _, ty := range []string{"u8", "u16", "u32", "u64"} {
						do(c27Case{Op: "read", Type: ty, Val: v.Text(16), W: w})
					}
				}
			}
			r.Sample(c27Case{Op: "read", Type: "u16", Val: "01ff80", W: 3})
			r.Sample(c27Case{Op: "copy", Val: "7f80ff", W: 4})
		},
		Replay: func(r *eng.Run, raw json.RawMessage) *eng.Fail {
			var c c27Case
			if err := json.Unmarshal(raw, &c); err != nil {
				panic(err)
			}
			return c27Run(c)
		},
	}
}
