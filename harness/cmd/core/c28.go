package main

import (
	"encoding/json"
	"fmt"
	"math/big"
	"sort"
	"strings"

	"mltwist/internal/exprtransform"
	"mltwist/pkg/expr"
	"mltwist/verifh/eng"
	"mltwist/verifh/ir"
)

// C28 — structural expression utilities are exact.

type c28Case struct {
	Op   string `json:"op"` // equal | find | replace | effect
	I    int    `json:"i"`
	J    int    `json:"j,omitempty"`
	Kind string `json:"kind,omitempty"`
	Mode string `json:"mode,omitempty"`
	Show string `json:"expr,omitempty"`
}

var c28Space = &treeSpace{name: "c28", build: func() []expr.Expr {
	l6 := []expr.Expr{ir.ConstU(1, 1), ir.ConstU(2, 1), ir.ConstU(1, 2), expr.NewRegLoad("r1", 1), expr.NewRegLoad("r1", 2), expr.NewRegLoad("r2", 1)}
	var out []expr.Expr
	out = append(out, l6...)
	t1 := ir.Collect(l6, nil, ws12)
	for _, e := range t1 {
		out = append(out, e)
		if m, ok := e.(expr.MemLoad); ok {
			out = append(out, expr.NewMemLoad("mem2", m.Addr(), m.Width()))
		}
	}
	// depth 2 and 3 over tiny leaves, with nested kinds of every sort
	out = append(out, spaces["t2tiny"].get()...)
	// a few deep hand-nested trees: each kind nested in itself
	x := expr.Expr(expr.NewRegLoad("r1", 2))
	for d := 0; d < 4; d++ {
		x = expr.NewMemLoad("mem", expr.NewBinary(expr.Add, x, ir.ConstU(uint64(d), 1), 2), 2)
		out = append(out, x)
		out = append(out, expr.NewLess(x, expr.One, x, expr.NewLess(expr.Zero, x, expr.One, x, 1), 2))
	}
	// constants wider than a machine word that agree in their low 8 bytes (5 and 2^64+5, 0 and
	// 2^64, 2^64 and 2^72), bare and inside otherwise identical trees
	for _, v := range []*big.Int{big.NewInt(5), new(big.Int).Add(new(big.Int).Lsh(big.NewInt(1), 64), big.NewInt(5)), new(big.Int), new(big.Int).Lsh(big.NewInt(1), 64), new(big.Int).Lsh(big.NewInt(1), 72)} {
		for _, w := range []expr.Width{10, 16} {
			k := ir.Const(v, w)
			out = append(out, k, expr.NewBinary(expr.Add, k, expr.NewRegLoad("r1", 1), w), expr.NewMemLoad("mem", k, 2),
				expr.NewLess(expr.NewRegLoad("r1", 1), k, expr.One, k, w))
		}
	}
	c28ChainFrom = len(out)
	// chains of three nested nodes (every kind with children at every level, every width
	// combination, the nested node in every operand slot, quiet leaves beside it): a function
	// that accepts the innermost node and declines the one above it
	quiet := []expr.Expr{expr.NewRegLoad("r2", 2), ir.ConstU(0x0102, 2)}
	wrapIn := func(kind int, child expr.Expr, slot int, w expr.Width) (expr.Expr, bool) {
		q0, q1 := quiet[0], quiet[1]
		switch kind {
		case 0:
			if slot > 1 {
				return nil, false
			}
			if slot == 0 {
				return expr.NewBinary(expr.Add, child, q1, w), true
			}
			return expr.NewBinary(expr.Nand, q0, child, w), true
		case 1:
			args := []expr.Expr{q0, q1, q1, q0}
			args[slot] = child
			return expr.NewLess(args[0], args[1], args[2], args[3], w), true
		default:
			if slot > 0 {
				return nil, false
			}
			return expr.NewMemLoad("mem", child, w), true
		}
	}
	for k3 := 0; k3 < 3; k3++ {
		for w3 := expr.Width(1); w3 <= 2; w3++ {
			inner, _ := wrapIn(k3, expr.NewRegLoad("r1", 1), 0, w3)
			for k2 := 0; k2 < 3; k2++ {
				for w2 := expr.Width(1); w2 <= 2; w2++ {
					for s2 := 0; s2 < 4; s2++ {
						mid, ok := wrapIn(k2, inner, s2, w2)
						if !ok {
							continue
						}
						for k1 := 0; k1 < 3; k1++ {
							for s1 := 0; s1 < 4; s1++ {
								if root, ok := wrapIn(k1, mid, s1, 2); ok {
									out = append(out, root)
								}
							}
						}
					}
				}
			}
		}
	}
	return out
}}

// c28ChainFrom: index of the first chain tree (these take no part in the all-pairs Equal slice)
var c28ChainFrom int

func preorder(e expr.Expr, f func(expr.Expr)) {
	f(e)
	switch x := e.(type) {
	case expr.Binary:
		preorder(x.Arg1(), f)
		preorder(x.Arg2(), f)
	case expr.Less:
		preorder(x.Arg1(), f)
		preorder(x.Arg2(), f)
		preorder(x.ExprTrue(), f)
		preorder(x.ExprFalse(), f)
	case expr.MemLoad:
		preorder(x.Addr(), f)
	}
}

var kinds = []string{"const", "regload", "memload", "binary", "less"}

func showList[T expr.Expr](l []T) []string {
	out := make([]string, len(l))
	for i, x := range l {
		out[i] = ir.Show(x)
	}
	return out
}

func findAllKind(e expr.Expr, kind string) []string {
	switch kind {
	case "const":
		return showList(exprtransform.FindAll[expr.Const](e))
	case "regload":
		return showList(exprtransform.FindAll[expr.RegLoad](e))
	case "memload":
		return showList(exprtransform.FindAll[expr.MemLoad](e))
	case "binary":
		return showList(exprtransform.FindAll[expr.Binary](e))
	case "less":
		return showList(exprtransform.FindAll[expr.Less](e))
	}
	panic(kind)
}

// replacement function by mode; records its calls.
func replFn(mode string, calls *[]string) func(e expr.Expr) (expr.Expr, bool) {
	return func(e expr.Expr) (expr.Expr, bool) {
		*calls = append(*calls, ir.Show(e))
		switch mode {
		case "none":
			return nil, false
		case "all":
			return expr.NewRegLoad(expr.Key("X"+kindOf(e)), e.Width()), true
		case "some":
			if e.Width() == 1 {
				return expr.NewRegLoad("Y", 3), true
			}
			return nil, false
		case "wrap":
			return expr.NewBinary(expr.Mul, e, ir.ConstU(7, 1), e.Width()), true
		case "ignored": // returns a value together with false: must be ignored
			return expr.NewRegLoad("IGNORED", 1), false
		}
		panic(mode)
	}
}

func replaceKind(e expr.Expr, kind, mode string, calls *[]string) expr.Expr {
	f := replFn(mode, calls)
	switch kind {
	case "const":
		return exprtransform.ReplaceAll(e, func(x expr.Const) (expr.Expr, bool) { return f(x) })
	case "regload":
		return exprtransform.ReplaceAll(e, func(x expr.RegLoad) (expr.Expr, bool) { return f(x) })
	case "memload":
		return exprtransform.ReplaceAll(e, func(x expr.MemLoad) (expr.Expr, bool) { return f(x) })
	case "binary":
		return exprtransform.ReplaceAll(e, func(x expr.Binary) (expr.Expr, bool) { return f(x) })
	case "less":
		return exprtransform.ReplaceAll(e, func(x expr.Less) (expr.Expr, bool) { return f(x) })
	}
	panic(kind)
}

// model of bottom-up substitution
func modelReplace(e expr.Expr, kind string, f func(expr.Expr) (expr.Expr, bool)) expr.Expr {
	var rebuilt expr.Expr
	switch x := e.(type) {
	case expr.Binary:
		rebuilt = expr.NewBinary(x.Op(), modelReplace(x.Arg1(), kind, f), modelReplace(x.Arg2(), kind, f), x.Width())
	case expr.Less:
		rebuilt = expr.NewLess(modelReplace(x.Arg1(), kind, f), modelReplace(x.Arg2(), kind, f),
			modelReplace(x.ExprTrue(), kind, f), modelReplace(x.ExprFalse(), kind, f), x.Width())
	case expr.MemLoad:
		rebuilt = expr.NewMemLoad(x.Key(), modelReplace(x.Addr(), kind, f), x.Width())
	default:
		rebuilt = e
	}
	if kindOf(rebuilt) == kind {
		if n, ok := f(rebuilt); ok {
			return n
		}
	}
	return rebuilt
}

func c28Run(c c28Case) *eng.Fail {
	ts := c28Space.get()
	e := ts[c.I]
	c.Show = ir.Show(e)
	switch c.Op {
	case "equal":
		o := ts[c.J]
		var got bool
		p, stack := eng.Catch(func() { got = exprtransform.Equal(e, o) })
		if p != nil {
			return &eng.Fail{Sig: "Equal panic " + eng.PanicSite(stack), What: fmt.Sprintf("Equal(%s,%s) panics: %v", c.Show, ir.Show(o), p), Case: c}
		}
		exp := c.Show == ir.Show(o)
		if got != exp {
			return &eng.Fail{Sig: fmt.Sprintf("Equal %v-for-%v %s/%s", got, exp, kindOf(e), kindOf(o)),
				What: fmt.Sprintf("Equal(%s, %s) = %v", c.Show, ir.Show(o), got), Case: c}
		}
	case "find":
		var got []string
		p, stack := eng.Catch(func() { got = findAllKind(e, c.Kind) })
		if p != nil {
			return &eng.Fail{Sig: "FindAll panic " + eng.PanicSite(stack), What: fmt.Sprintf("FindAll[%s](%s) panics: %v", c.Kind, c.Show, p), Case: c}
		}
		var exp []string
		preorder(e, func(n expr.Expr) {
			if kindOf(n) == c.Kind {
				exp = append(exp, ir.Show(n))
			}
		})
		if strings.Join(got, ";") != strings.Join(exp, ";") {
			return &eng.Fail{Sig: "FindAll " + c.Kind, What: fmt.Sprintf("FindAll[%s](%s) = %v, expected pre-order %v", c.Kind, c.Show, got, exp), Case: c, Expected: exp, Observed: got}
		}
	case "replace":
		var calls, mcalls []string
		var got expr.Expr
		p, stack := eng.Catch(func() { got = replaceKind(e, c.Kind, c.Mode, &calls) })
		if p != nil {
			return &eng.Fail{Sig: "ReplaceAll panic " + eng.PanicSite(stack), What: fmt.Sprintf("ReplaceAll[%s/%s](%s) panics: %v", c.Kind, c.Mode, c.Show, p), Case: c}
		}
		exp := modelReplace(e, c.Kind, replFn(c.Mode, &mcalls))
		if ir.Show(e) != c.Show {
			return &eng.Fail{Sig: "ReplaceAll input-mutated", What: "input changed", Case: c}
		}
		if ir.Show(got) != ir.Show(exp) {
			return &eng.Fail{Sig: "ReplaceAll result " + c.Kind + "/" + c.Mode, What: fmt.Sprintf("ReplaceAll[%s/%s](%s) = %s, expected %s", c.Kind, c.Mode, c.Show, ir.Show(got), ir.Show(exp)), Case: c}
		}
		sort.Strings(calls)
		sort.Strings(mcalls)
		if strings.Join(calls, ";") != strings.Join(mcalls, ";") {
			return &eng.Fail{Sig: "ReplaceAll calls " + c.Kind + "/" + c.Mode, What: fmt.Sprintf("ReplaceAll[%s/%s](%s) applied f to %v, expected (as multiset) %v", c.Kind, c.Mode, c.Show, calls, mcalls), Case: c}
		}
	case "effect":
		o := ts[c.J]
		wrap := func(x expr.Expr) expr.Expr { return expr.NewBinary(expr.Mul, x, ir.ConstU(5, 1), 3) }
		for _, ew := range []expr.Width{1, 2, 4} {
			effs := []expr.Effect{expr.NewRegStore(e, "k1", ew), expr.NewMemStore(e, "memk", o, ew)}
			for _, ef := range effs {
				var ops []expr.Expr
				var ap expr.Effect
				p, stack := eng.Catch(func() {
					ops = exprtransform.Exprs(ef)
					ap = exprtransform.EffectApply(ef, wrap)
				})
				if p != nil {
					return &eng.Fail{Sig: "effect panic " + eng.PanicSite(stack), What: fmt.Sprintf("Exprs/EffectApply(%s) panics: %v", ir.ShowEffect(ef), p), Case: c}
				}
				got := showList(ops)
				sort.Strings(got)
				var exp []string
				var expAp string
				switch x := ef.(type) {
				case expr.RegStore:
					exp = []string{ir.Show(x.Value())}
					expAp = ir.ShowEffect(expr.NewRegStore(wrap(x.Value()), x.Key(), x.Width()))
				case expr.MemStore:
					exp = []string{ir.Show(x.Value()), ir.Show(x.Addr())}
					expAp = ir.ShowEffect(expr.NewMemStore(wrap(x.Value()), x.Key(), wrap(x.Addr()), x.Width()))
				}
				sort.Strings(exp)
				if strings.Join(got, ";") != strings.Join(exp, ";") {
					return &eng.Fail{Sig: "Exprs operands", What: fmt.Sprintf("Exprs(%s) = %v, expected %v", ir.ShowEffect(ef), got, exp), Case: c}
				}
				if ir.ShowEffect(ap) != expAp {
					return &eng.Fail{Sig: "EffectApply result", What: fmt.Sprintf("EffectApply(%s) = %s, expected %s", ir.ShowEffect(ef), ir.ShowEffect(ap), expAp), Case: c}
				}
				// functions that change only some operands: nothing, only the stored value, only the address
				es, os := ir.Show(e), ir.Show(o)
				for fi, f := range []func(x expr.Expr) expr.Expr{
					func(x expr.Expr) expr.Expr { return x },
					func(x expr.Expr) expr.Expr {
						if ir.Show(x) == es {
							return wrap(x)
						}
						return x
					},
					func(x expr.Expr) expr.Expr {
						if ir.Show(x) == os {
							return wrap(x)
						}
						return x
					},
				} {
					var ap2 expr.Effect
					if p, stack := eng.Catch(func() { ap2 = exprtransform.EffectApply(ef, f) }); p != nil {
						return &eng.Fail{Sig: "effect panic " + eng.PanicSite(stack), What: fmt.Sprintf("EffectApply(%s) panics: %v", ir.ShowEffect(ef), p), Case: c}
					}
					var exp2 string
					switch x := ef.(type) {
					case expr.RegStore:
						exp2 = ir.ShowEffect(expr.NewRegStore(f(x.Value()), x.Key(), x.Width()))
					case expr.MemStore:
						exp2 = ir.ShowEffect(expr.NewMemStore(f(x.Value()), x.Key(), f(x.Addr()), x.Width()))
					}
					if ir.ShowEffect(ap2) != exp2 {
						return &eng.Fail{Sig: "EffectApply result (partial function)", What: fmt.Sprintf("EffectApply(%s, f%d) = %s, expected %s (f0 = identity, f1 changes only %s, f2 changes only %s)", ir.ShowEffect(ef), fi, ir.ShowEffect(ap2), exp2, es, os), Case: c}
					}
				}
				// EffectsApply on the whole list, twice: results exact, the caller's list untouched
				before := []string{ir.ShowEffect(effs[0]), ir.ShowEffect(effs[1])}
				for round := 0; round < 2; round++ {
					var aps []expr.Effect
					if p, stack := eng.Catch(func() { aps = exprtransform.EffectsApply(effs, wrap) }); p != nil {
						return &eng.Fail{Sig: "EffectsApply panic " + eng.PanicSite(stack), What: fmt.Sprint(p), Case: c}
					}
					if len(aps) != 2 || ir.ShowEffect(aps[0]) != ir.ShowEffect(exprtransform.EffectApply(expr.NewRegStore(e, "k1", ew), wrap)) ||
						ir.ShowEffect(aps[1]) != ir.ShowEffect(exprtransform.EffectApply(expr.NewMemStore(e, "memk", o, ew), wrap)) {
						return &eng.Fail{Sig: "EffectsApply result", What: fmt.Sprintf("EffectsApply (round %d) of [%s; %s] gives %d effects: %v", round, before[0], before[1], len(aps), aps), Case: c}
					}
					if ir.ShowEffect(effs[0]) != before[0] || ir.ShowEffect(effs[1]) != before[1] {
						return &eng.Fail{Sig: "EffectsApply alters-input", What: fmt.Sprintf("EffectsApply changed the list it was given: [%s; %s] became [%s; %s]", before[0], before[1], ir.ShowEffect(effs[0]), ir.ShowEffect(effs[1])), Case: c}
					}
				}
				many := exprtransform.ExprsMany(effs)
				if len(many) != 3 {
					return &eng.Fail{Sig: "ExprsMany count", What: fmt.Sprintf("ExprsMany lists %d expressions for a RegStore+MemStore", len(many)), Case: c}
				}
			}
		}
	}
	return nil
}

func init() {
	checks["C28"] = eng.Check{
		Rule: "On a space of ~6k trees (all 1-internal-node trees over 6 leaves x widths 1,2 x two memory keys; all 2-internal-node trees over 2 leaves; deep self-nested trees; constants of 10 and 16 bytes that agree in their low 8 bytes, bare and inside otherwise identical trees; plus ~600 chains of three nested nodes — every kind with children at every level, widths 1/2, every operand slot, quiet leaves beside — for FindAll/ReplaceAll): Equal on ALL ordered pairs of the first group vs. equality of an independent canonical rendering; FindAll for each of the 5 node kinds vs. own pre-order walk; ReplaceAll for 5 kinds x 5 replacement functions (none/all/some/wrap/ignored) vs. own bottom-up model incl. the multiset of nodes f was applied to; Exprs/ExprsMany/EffectApply/EffectsApply (applied twice, input list must stay untouched) on RegStore/MemStore of every tree x 3 widths, with functions that change every operand, none, only the value and only the address. Non-trivial = Equal pair with equal kinds and widths; find/replace with at least one match.",
		Run: func(r *eng.Run) {
			ts := c28Space.get()
			n := len(ts)
			r.Note("trees=%d", n)
			shows := make([]string, n)
			for i, e := range ts {
				shows[i] = ir.Show(e)
			}
			r.Par(n, func(i int) {
				// Equal over all pairs: fast path comparing with precomputed renderings
				for j := 0; j < n; j++ {
					if (i >= c28ChainFrom || j >= c28ChainFrom) && j != i && j != i+1 {
						continue // chain trees: compared with themselves and their neighbour only
					}
					var got bool
					p, _ := eng.Catch(func() { got = exprtransform.Equal(ts[i], ts[j]) })
					r.Eval(1)
					if p != nil || got != (shows[i] == shows[j]) {
						r.Report(c28Run(c28Case{Op: "equal", I: i, J: j}))
					}
					if ts[i].Width() == ts[j].Width() && kindOf(ts[i]) == kindOf(ts[j]) {
						r.Nontrivial(1)
					}
				}
				for _, k := range kinds {
					f := c28Run(c28Case{Op: "find", I: i, Kind: k})
					r.Eval(1)
					r.Report(f)
					for _, m := range []string{"none", "all", "some", "wrap", "ignored"} {
						f := c28Run(c28Case{Op: "replace", I: i, Kind: k, Mode: m})
						r.Eval(1)
						r.Report(f)
						r.Nontrivial(1)
					}
				}
				f := c28Run(c28Case{Op: "effect", I: i, J: (i * 7) % n})
				r.Eval(1)
				r.Report(f)
			})
			r.Sample(c28Case{Op: "replace", I: n - 1, Kind: "memload", Mode: "wrap", Show: shows[n-1]})
			r.Sample(c28Case{Op: "equal", I: 100, J: 101, Show: shows[100] + " vs " + shows[101]})
		},
		Replay: func(r *eng.Run, raw json.RawMessage) *eng.Fail {
			var c c28Case
			if err := json.Unmarshal(raw, &c); err != nil {
				panic(err)
			}
			return c28Run(c)
		},
	}
}
