// Command core hosts the checks over pkg/expr, exprtransform, state, opcode.
package main

import "mltwist/verifh/eng"

var checks = map[string]eng.Check{}

func main() { eng.Main(checks) }
