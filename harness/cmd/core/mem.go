package main

import (
	"encoding/json"
	"fmt"
	"math/big"
	"sort"
	"strings"

	"mltwist/internal/state/interval"
	"mltwist/internal/state/memory"
	"mltwist/pkg/expr"
	"mltwist/pkg/expr/exprtools"
	"mltwist/pkg/model"
	"mltwist/verifh/eng"
	"mltwist/verifh/ir"
)

// Shared machinery of C14 (Sparse), C15 (Bytes), C16 (Overlay): explicit
// histories executed on a fresh real memory, compared with a byte map.

type memOp struct {
	Addr int    `json:"addr"`
	W    int    `json:"w"`
	Kind string `json:"kind"` // const | sym | narrow | wide | narrowsym
}

type memBlock struct {
	Begin int    `json:"begin"`
	Bytes string `json:"bytes"` // hex
}

type memCase struct {
	Mem    string     `json:"mem"`              // sparse | bytes | overlay
	Base   string     `json:"base,omitempty"`   // overlay: bytes | sparse
	Blocks []memBlock `json:"blocks,omitempty"` // initial blocks of Bytes (mem=bytes or base=bytes)
	Pre    []memOp    `json:"pre,omitempty"`    // stores into a Sparse base
	Ops    []memOp    `json:"ops"`
	Top    bool       `json:"top,omitempty"` // addresses shifted to just below 2^64
	MaxA   int        `json:"maxa"`          // reads cover addresses 0..MaxA
	MaxW   int        `json:"maxw"`
	// ExtraW: further read widths above MaxW (a read spanning the whole window
	// crosses several holes and blocks of both layers at once)
	ExtraW []int `json:"extraw,omitempty"`
	// NoMidReads: no reads between the stores of the history (by default every address is
	// read after each store; read/write interleavings are part of the history).
	NoMidReads bool `json:"no_mid_reads,omitempty"`
	// NoInitialReads: the memory is not read before the first store either.
	NoInitialReads bool `json:"no_initial_reads,omitempty"`
	// TopEnd: a single call on the range of MaxW bytes that ENDS exactly at 2^64 (it does
	// not wrap): load | missing | store | new (Bytes created with a block there, then loaded)
	TopEnd string `json:"top_end,omitempty"`
	// Far (with Top): the memory also holds a 2-byte block near address 0, more than 2^63
	// away from the window just below 2^64: orderings and searches have to cope with both
	// halves of the address space at once
	Far bool `json:"far,omitempty"`
	// SharedBuf: the initial blocks of a Bytes memory are windows of one larger buffer (slices
	// with spare capacity), not separately allocated slices
	SharedBuf bool `json:"shared_buf,omitempty"`
	// Retain (overlay): the base layer is a Memory that keeps ONE block list and hands it out
	// on every Blocks() call (the list has spare capacity), as an implementation outside this
	// package may — the layered memory must not modify what its base returns
	Retain bool `json:"retaining_base,omitempty"`
}

// retainingBase wraps a memory that is only read: Blocks() always returns the same map.
type retainingBase struct {
	memory.Memory
	blocks interval.Map[model.Addr]
}

func newRetainingBase(m memory.Memory) *retainingBase {
	src := m.Blocks().Intervals()
	ivs := make([]interval.Interval[model.Addr], len(src), len(src)+8)
	copy(ivs, src)
	return &retainingBase{Memory: m, blocks: interval.NewMap(ivs...)}
}

func (b *retainingBase) Blocks() interval.Map[model.Addr] { return b.blocks }

// memTopEndRun: the last MaxW bytes of the address space, [2^64-w, 2^64).
func memTopEndRun(c memCase) *eng.Fail {
	w := c.MaxW
	addr := ^model.Addr(0) - model.Addr(w-1)
	site := map[string]string{"sparse": "Sparse", "bytes": "Bytes", "overlay": "Overlay"}[c.Mem]
	const tag = " [range ends at 2^64]"
	bs := make([]byte, w)
	for i := range bs {
		bs[i] = byte(0xe0 + i)
	}
	val := expr.NewConst(bs, expr.Width(w))
	var mem memory.Memory
	mkBytes := func(top bool) (*memory.Bytes, *eng.Fail) {
		in := []memory.ByteBlock{blk{16, []byte{0x55}}}
		if top {
			in = append(in, blk{addr, append([]byte{}, bs...)})
		}
		var bm *memory.Bytes
		var err error
		p, stack := eng.Catch(func() { bm, err = memory.NewBytes(in) })
		if p != nil {
			return nil, &eng.Fail{Sig: "NewBytes panic " + eng.PanicSite(stack) + tag, What: fmt.Sprintf("NewBytes with a block [2^64-%d, 2^64) panics: %v", w, p), Case: c}
		}
		if err != nil {
			return nil, nil // refusing such a block is an answer
		}
		return bm, nil
	}
	switch c.Mem {
	case "sparse":
		mem = memory.NewSparse()
	case "bytes":
		bm, f := mkBytes(c.TopEnd == "new")
		if f != nil || bm == nil {
			return f
		}
		mem = bm
	case "overlay":
		if c.Base == "bytes" {
			bm, f := mkBytes(c.TopEnd == "new")
			if f != nil || bm == nil {
				return f
			}
			mem = memory.NewOverlay(bm, memory.NewSparse())
		} else {
			mem = memory.NewOverlay(memory.NewSparse(), memory.NewSparse())
		}
	}
	written := c.TopEnd == "new"
	if c.TopEnd == "store" {
		p, stack := eng.Catch(func() { mem.Store(addr, val, expr.Width(w)) })
		if p != nil {
			return &eng.Fail{Sig: site + ".Store panic " + eng.PanicSite(stack) + tag, What: fmt.Sprintf("%s.Store(2^64-%d, %s, %d) panics: %v", site, w, ir.Show(val), w, p), Case: c}
		}
		written = true
	}
	if c.TopEnd == "missing" {
		p, stack := eng.Catch(func() { mem.Missing(addr, expr.Width(w)) })
		if p != nil {
			return &eng.Fail{Sig: site + ".Missing panic " + eng.PanicSite(stack) + tag, What: fmt.Sprintf("%s.Missing(2^64-%d, %d) panics: %v", site, w, w, p), Case: c}
		}
		return nil // the expected answer [2^64-w, 2^64) cannot be expressed as an interval of addresses: not judged
	}
	var ex expr.Expr
	var ok bool
	p, stack := eng.Catch(func() { ex, ok = mem.Load(addr, expr.Width(w)) })
	if p != nil {
		return &eng.Fail{Sig: site + ".Load panic " + eng.PanicSite(stack) + tag, What: fmt.Sprintf("%s.Load(2^64-%d, %d) panics (bytes written there: %v): %v", site, w, w, written, p), Case: c}
	}
	if ok != written {
		return &eng.Fail{Sig: fmt.Sprintf("%s.Load availability %v-for-%v", site, ok, written) + tag, What: fmt.Sprintf("%s.Load(2^64-%d, %d) reports ok=%v, bytes written there: %v", site, w, w, ok, written), Case: c}
	}
	if ok {
		if ex.Width() != expr.Width(w) {
			return &eng.Fail{Sig: site + ".Load width" + tag, What: fmt.Sprintf("Load returned width %d", ex.Width()), Case: c}
		}
		if got := ir.Eval(ex, memEnv(memVals[0])); got.Cmp(ir.ConstVal(val)) != 0 {
			return &eng.Fail{Sig: site + ".Load value" + tag, What: fmt.Sprintf("%s.Load(2^64-%d, %d) = %s evaluates to %x, written %x", site, w, w, ir.Show(ex), got, ir.ConstVal(val)), Case: c}
		}
	}
	return nil
}

// memTopEnd runs the single-call cases on the last bytes of the address space.
func memTopEnd(r *eng.Run, mems []memCase) {
	for _, base := range mems {
		for _, op := range []string{"load", "missing", "store", "new"} {
			if op == "new" && base.Mem != "bytes" && base.Base != "bytes" {
				continue
			}
			for _, w := range []int{1, 2, 4} {
				c := base
				c.TopEnd, c.MaxW = op, w
				f := memTopEndRun(c)
				r.Eval(1)
				r.State(1)
				r.Trace(1)
				if f != nil {
					r.Report(f)
					r.Outcome(f.Sig)
				}
			}
		}
	}
}

// cell is one byte of the model: byte Idx of value Val adjusted to width W.
type cell struct {
	val expr.Expr
	w   expr.Width
	idx int
}

type memModel map[int]cell

func (m memModel) store(addr int, v expr.Expr, w int) {
	for i := 0; i < w; i++ {
		m[addr+i] = cell{v, expr.Width(w), i}
	}
}

func (c cell) byteAt(env *ir.Env) byte {
	v := ir.Adjust(ir.Eval(c.val, env), c.w)
	return byte(new(big.Int).Rsh(v, uint(c.idx)*8).Uint64() & 0xff)
}

var memVals = []valuation{{R1: 0x0807060504030201, R2: 0, Seed: 1}, {R1: 0xf1e2d3c4b5a69788, R2: 0, Seed: 2}, {R1: 0x00ff00ff7f8001fe, R2: 0, Seed: 3}}

func memEnv(v valuation) *ir.Env {
	return &ir.Env{
		Reg: func(k expr.Key) *big.Int {
			// s0, s1, ...: distinct per register and per byte
			n := uint64(k[len(k)-1] - '0')
			x := v.R1 ^ (n * 0x1111111111111111)
			return new(big.Int).SetUint64(x)
		},
		Mem: func(k expr.Key, a *big.Int) byte { return ir.MixByte(k, a, v.Seed) },
	}
}

// opValue builds the value of the i-th store of a history.
func opValue(tag, i int, op memOp) expr.Expr {
	mk := func(w int) expr.Expr {
		bs := make([]byte, w)
		for j := range bs {
			bs[j] = byte((tag+i+1)<<4 | (j + 1))
		}
		return expr.NewConst(bs, expr.Width(w))
	}
	switch op.Kind {
	case "const":
		return mk(op.W)
	case "narrow":
		return mk(op.W - 1)
	case "wide":
		return mk(op.W + 1)
	case "byteval":
		return mk(1)
	case "basecopy", "samecopy":
		return mk(op.W) // replaced by the caller
	case "sym":
		return expr.NewRegLoad(expr.Key(fmt.Sprintf("s%d", (tag+i)%10)), expr.Width(op.W))
	case "symsame":
		// the SAME 8-byte register whatever the position in the history and the write width
		return expr.NewRegLoad("sx", 8)
	case "constsame":
		return expr.NewConst([]byte{0x91, 0x92, 0x93, 0x94}, 4)
	case "symwide":
		return expr.NewRegLoad(expr.Key(fmt.Sprintf("s%d", (tag+i)%10)), 8)
	case "zero":
		return expr.NewConst(make([]byte, op.W), expr.Width(op.W)) // an all-zero constant
	case "lowzero":
		// low half zero, high half non-zero: "is it zero" judged on the low bytes only is wrong
		bs := make([]byte, op.W)
		for j := op.W / 2; j < op.W; j++ {
			bs[j] = byte((tag+i+1)<<4 | (j%15 + 1))
		}
		if op.W == 1 {
			bs[0] = 0
		}
		return expr.NewConst(bs, expr.Width(op.W))
	case "gadgetnarrow":
		// a narrowing width gadget on top: the low W-1 bytes of an 8-byte register; a store of
		// W bytes zero-extends it, so the register's upper bytes must not come back
		gw := op.W - 1
		if gw < 1 {
			gw = 1
		}
		return exprtools.NewWidthGadget(expr.NewRegLoad(expr.Key(fmt.Sprintf("s%d", (tag+i)%10)), 8), expr.Width(gw))
	case "binsym":
		k := expr.Key(fmt.Sprintf("s%d", (tag+i)%10))
		return expr.NewBinary(expr.Add, expr.NewRegLoad(k, 8), expr.NewRegLoad(k, 2), expr.Width(op.W))
	case "narrowsym":
		return expr.NewRegLoad(expr.Key(fmt.Sprintf("s%d", (tag+i)%10)), expr.Width(op.W-1))
	}
	panic("kind " + op.Kind)
}

type blk struct {
	begin model.Addr
	bytes []byte
}

func (b blk) Begin() model.Addr { return b.begin }
func (b blk) Bytes() []byte     { return b.bytes }

func ivString(m interval.Map[model.Addr], off model.Addr) (string, string) {
	var sb strings.Builder
	var prevEnd model.Addr
	var rel [][2]int64
	bad := ""
	for i, iv := range m.Intervals() {
		if !(iv.Begin() < iv.End()) {
			bad = "empty interval"
		}
		if i > 0 && !(prevEnd < iv.Begin()) {
			bad = "intervals not sorted/disjoint/non-adjacent"
		}
		prevEnd = iv.End()
		rel = append(rel, [2]int64{int64(iv.Begin() - off), int64(iv.End() - off)})
	}
	// printed in the order of the relative addresses (a block near address 0 of a memory whose
	// window lies just below 2^64 comes first in absolute and last in relative terms)
	sort.Slice(rel, func(i, j int) bool { return rel[i][0] < rel[j][0] })
	for _, r := range rel {
		fmt.Fprintf(&sb, "[%d,%d)", r[0], r[1])
	}
	return sb.String(), bad
}

func runsString(addrs []int) string {
	sort.Ints(addrs)
	var sb strings.Builder
	for i := 0; i < len(addrs); {
		j := i
		for j+1 < len(addrs) && addrs[j+1] == addrs[j]+1 {
			j++
		}
		fmt.Fprintf(&sb, "[%d,%d)", addrs[i], addrs[j]+1)
		i = j + 1
	}
	return sb.String()
}

// surface compares every Load / Missing / Blocks of mem with the model.
func surface(site string, mem memory.Memory, mdl memModel, off model.Addr, c memCase, lo int) *eng.Fail {
	ws := seq(1, c.MaxW)
	ws = append(ws, c.ExtraW...)
	// interval maps the memory returned are kept and looked at again at the end: no later call
	// may alter a value returned earlier
	type keptMap struct {
		what string
		m    interval.Map[model.Addr]
		dig  string
	}
	var kept []keptMap
	for a := lo; a <= c.MaxA; a++ {
		for _, w := range ws {
			desc := fmt.Sprintf("%s.Load(%d,%d)", site, a, w)
			var ex expr.Expr
			var ok bool
			p, stack := eng.Catch(func() { ex, ok = mem.Load(off+model.Addr(a), expr.Width(w)) })
			if p != nil {
				return &eng.Fail{Sig: site + ".Load panic " + eng.PanicSite(stack), What: fmt.Sprintf("%s panics: %v", desc, p), Case: c}
			}
			all := true
			var missing []int
			for i := 0; i < w; i++ {
				if _, in := mdl[a+i]; !in {
					all = false
					missing = append(missing, a+i)
				}
			}
			if ok != all {
				return &eng.Fail{Sig: fmt.Sprintf("%s.Load availability %v-for-%v", site, ok, all), What: fmt.Sprintf("%s reports ok=%v but model says all bytes written=%v", desc, ok, all), Case: c}
			}
			if ok {
				if ex == nil {
					return &eng.Fail{Sig: site + ".Load nil", What: desc + " returned nil expression", Case: c}
				}
				if ex.Width() != expr.Width(w) {
					return &eng.Fail{Sig: site + ".Load width", What: fmt.Sprintf("%s returned width %d: %s", desc, ex.Width(), ir.Show(ex)), Case: c}
				}
				vals := memVals
				if !hasLoad(ex) {
					sym := false
					for i := 0; i < w; i++ {
						if _, isC := mdl[a+i].val.(expr.Const); !isC {
							sym = true
						}
					}
					if !sym {
						vals = memVals[:1] // closed expression and constant model bytes: one valuation decides
					}
				}
				for _, v := range vals {
					env := memEnv(v)
					var got *big.Int
					p, stack := eng.Catch(func() { got = ir.Eval(ex, env) })
					if p != nil {
						return &eng.Fail{Sig: site + ".Load bad-expr " + eng.PanicSite(stack), What: fmt.Sprintf("%s returned unevaluable expression: %v", desc, p), Case: c}
					}
					exp := new(big.Int)
					for i := w - 1; i >= 0; i-- {
						exp.Lsh(exp, 8)
						exp.Or(exp, big.NewInt(int64(mdl[a+i].byteAt(env))))
					}
					if got.Cmp(exp) != 0 {
						cls := "aligned"
						if w < int(mdl[a].w) || mdl[a].idx != 0 {
							cls = "partial"
						}
						return &eng.Fail{Sig: site + ".Load value " + cls, What: fmt.Sprintf("%s = %s evaluates to %x, bytes written there are %x", desc, ir.Show(ex), got, exp), Case: c,
							Expected: exp.Text(16), Observed: got.Text(16)}
					}
				}
			}
			// Missing
			var mm interval.Map[model.Addr]
			p, stack = eng.Catch(func() { mm = mem.Missing(off+model.Addr(a), expr.Width(w)) })
			if p != nil {
				return &eng.Fail{Sig: site + ".Missing panic " + eng.PanicSite(stack), What: fmt.Sprintf("%s.Missing(%d,%d) panics: %v", site, a, w, p), Case: c}
			}
			got, bad := ivString(mm, off)
			if exp := runsString(missing); got != exp || bad != "" {
				return &eng.Fail{Sig: site + ".Missing wrong", What: fmt.Sprintf("%s.Missing(%d,%d) = %s %s, expected %s", site, a, w, got, bad, exp), Case: c}
			}
			if got != "" {
				kept = append(kept, keptMap{fmt.Sprintf("Missing(%d,%d)", a, w), mm, got})
			}
		}
	}
	for _, k := range kept {
		if now, _ := ivString(k.m, off); now != k.dig {
			return &eng.Fail{Sig: site + " alters-returned-missing", What: fmt.Sprintf("the interval map returned by %s.%s was %s and, after later reads, is %s", site, k.what, k.dig, now), Case: c}
		}
	}
	var bm interval.Map[model.Addr]
	p, stack := eng.Catch(func() { bm = mem.Blocks() })
	if p != nil {
		return &eng.Fail{Sig: site + ".Blocks panic " + eng.PanicSite(stack), What: fmt.Sprintf("%s.Blocks panics: %v", site, p), Case: c}
	}
	var addrs []int
	for a := range mdl {
		addrs = append(addrs, a)
	}
	got, bad := ivString(bm, off)
	if exp := runsString(addrs); got != exp || bad != "" {
		return &eng.Fail{Sig: site + ".Blocks wrong", What: fmt.Sprintf("%s.Blocks() = %s %s, expected %s", site, got, bad, exp), Case: c}
	}
	return nil
}

func hasLoad(e expr.Expr) bool {
	switch x := e.(type) {
	case expr.RegLoad, expr.MemLoad:
		return true
	case expr.Binary:
		return hasLoad(x.Arg1()) || hasLoad(x.Arg2())
	case expr.Less:
		return hasLoad(x.Arg1()) || hasLoad(x.Arg2()) || hasLoad(x.ExprTrue()) || hasLoad(x.ExprFalse())
	}
	return false
}

func hexBytes(s string) []byte {
	out := make([]byte, len(s)/2)
	fmt.Sscanf(s, "%x", &out)
	return out
}

// blocksOverlap reports whether two initial blocks share an address.
func blocksOverlap(bs []memBlock) bool {
	seen := map[int]bool{}
	for _, b := range bs {
		for i := 0; i < len(b.Bytes)/2; i++ {
			if seen[b.Begin+i] {
				return true
			}
			seen[b.Begin+i] = true
		}
	}
	return false
}

// memRun executes one case. The returned int counts transitions executed.
func memRun(c memCase) (*eng.Fail, int) {
	if c.TopEnd != "" {
		return memTopEndRun(c), 1
	}
	var off model.Addr
	if c.Top {
		off = model.Addr(0) - model.Addr(c.MaxA+c.MaxW+16)
	}
	mdl := memModel{}
	var mem memory.Memory
	var base memory.Memory
	baseMdl := memModel{}
	site := map[string]string{"sparse": "Sparse", "bytes": "Bytes", "overlay": "Overlay"}[c.Mem]
	trans := 0

	// handed: every value given to the memory with its digest, re-checked at the end
	type handed struct {
		what string
		e    expr.Expr
		dig  string
	}
	var hs []handed
	var srcSlices [][]byte
	var srcCopies [][]byte

	mkBytes := func() (*memory.Bytes, *eng.Fail) {
		var in []memory.ByteBlock
		var shared, sharedCopy []byte
		if c.SharedBuf {
			// all blocks are windows of ONE buffer (a file image), laid out in reverse order with
			// spare room at its end: every window has capacity beyond its length
			n := 8
			for _, b := range c.Blocks {
				n += len(b.Bytes) / 2
			}
			shared = make([]byte, n)
			for i := range shared {
				shared[i] = 0xee
			}
			pos := 0
			for i := len(c.Blocks) - 1; i >= 0; i-- {
				pos += copy(shared[pos:], hexBytes(c.Blocks[i].Bytes))
			}
			sharedCopy = append([]byte{}, shared...)
		}
		pos := len(shared) - 8
		for _, b := range c.Blocks {
			bs := hexBytes(b.Bytes)
			if c.SharedBuf {
				pos -= len(bs)
				bs = shared[pos : pos+len(bs)]
			}
			srcSlices = append(srcSlices, bs)
			srcCopies = append(srcCopies, append([]byte{}, bs...))
			in = append(in, blk{off + model.Addr(b.Begin), bs})
		}
		var bm *memory.Bytes
		var err error
		p, stack := eng.Catch(func() { bm, err = memory.NewBytes(in) })
		if p != nil {
			return nil, &eng.Fail{Sig: "NewBytes panic " + eng.PanicSite(stack), What: fmt.Sprintf("NewBytes panics: %v", p), Case: c}
		}
		if c.SharedBuf && fmt.Sprintf("%x", shared) != fmt.Sprintf("%x", sharedCopy) {
			return nil, &eng.Fail{Sig: "Bytes alters-source-slice", What: fmt.Sprintf("NewBytes changed the buffer its blocks were windows of: %x -> %x", sharedCopy, shared), Case: c}
		}
		ov := blocksOverlap(c.Blocks)
		if (err != nil) != ov {
			return nil, &eng.Fail{Sig: fmt.Sprintf("NewBytes error=%v overlap=%v", err != nil, ov), What: fmt.Sprintf("NewBytes error %v but blocks overlap=%v", err, ov), Case: c}
		}
		if err != nil {
			return nil, nil
		}
		// the memory must not alias the slices it was given
		for _, s := range srcSlices {
			for i := range s {
				s[i] ^= 0xff
			}
		}
		return bm, nil
	}
	initBlocks := func(m memModel) {
		for _, b := range c.Blocks {
			bs := hexBytes(b.Bytes)
			m.store(b.Begin, expr.NewConst(bs, expr.Width(len(bs))), len(bs))
		}
	}

	switch c.Mem {
	case "sparse":
		mem = memory.NewSparse()
	case "bytes":
		bm, f := mkBytes()
		if f != nil || bm == nil {
			return f, 0
		}
		mem = bm
		initBlocks(mdl)
	case "overlay":
		switch c.Base {
		case "bytes":
			bm, f := mkBytes()
			if f != nil || bm == nil {
				return f, 0
			}
			base = bm
			initBlocks(baseMdl)
		case "sparse":
			sp := memory.NewSparse()
			for i, op := range c.Pre {
				v := opValue(5, i, op)
				sp.Store(off+model.Addr(op.Addr), v, expr.Width(op.W))
				baseMdl.store(op.Addr, v, op.W)
			}
			base = sp
		}
		for a, cl := range baseMdl {
			mdl[a] = cl
		}
		if c.Retain {
			base = newRetainingBase(base)
		}
		mem = memory.NewOverlay(base, memory.NewSparse())
	}

	if c.Far && c.Top {
		farAbs := model.Addr(0x40)
		farRel := int(farAbs - off)
		v := ir.ConstU(0x5a5b, 2)
		p, stack := eng.Catch(func() { mem.Store(farAbs, v, 2) })
		if p != nil {
			return &eng.Fail{Sig: site + ".Store panic " + eng.PanicSite(stack), What: fmt.Sprintf("%s.Store(0x40, %s, 2) panics: %v", site, ir.Show(v), p), Case: c}, 0
		}
		mdl.store(farRel, v, 2)
	}
	lo := 0
	if !c.NoInitialReads || len(c.Ops) == 0 {
		if f := surface(site, mem, mdl, off, c, lo); f != nil && len(c.Ops) == 0 {
			return f, 0
		}
	}

	type returned struct {
		e   expr.Expr
		dig string
	}
	var rets []returned
	type returnedBlocks struct {
		m   interval.Map[model.Addr]
		dig string
	}
	var midBlocks []returnedBlocks
	for i, op := range c.Ops {
		v := opValue(0, i, op)
		if op.Kind == "samecopy" {
			// a constant equal to what the memory currently holds there (a store that changes nothing)
			bs := make([]byte, op.W)
			env := memEnv(memVals[0])
			for j := range bs {
				bs[j] = byte(0x40 + i + j)
				if cl, ok := mdl[op.Addr+j]; ok {
					if _, isC := cl.val.(expr.Const); isC {
						bs[j] = cl.byteAt(env)
					}
				}
			}
			v = expr.NewConst(bs, expr.Width(op.W))
		}
		if op.Kind == "basecopy" {
			// a constant equal to what the base layer holds there (restoring the original content)
			bs := make([]byte, op.W)
			for j := range bs {
				bs[j] = byte(0x30 + i + j)
				if cl, ok := baseMdl[op.Addr+j]; ok {
					if k, isC := cl.val.(expr.Const); isC {
						bs[j] = k.Bytes()[cl.idx]
					}
				}
			}
			v = expr.NewConst(bs, expr.Width(op.W))
		}
		hs = append(hs, handed{fmt.Sprintf("value of store #%d", i), v, ir.Show(v)})
		p, stack := eng.Catch(func() { mem.Store(off+model.Addr(op.Addr), v, expr.Width(op.W)) })
		trans++
		if p != nil {
			return &eng.Fail{Sig: site + ".Store panic " + eng.PanicSite(stack), What: fmt.Sprintf("%s.Store(%d, %s, %d) panics: %v", site, op.Addr, ir.Show(v), op.W, p), Case: c}, trans
		}
		mdl.store(op.Addr, v, op.W)
		if i < len(c.Ops)-1 && !c.NoMidReads {
			// mid-history reads: keep what was returned to verify it is never altered later
			for a := 0; a <= c.MaxA; a += 1 {
				for _, w := range []int{1, c.MaxW} {
					var ex expr.Expr
					var ok bool
					eng.Catch(func() { ex, ok = mem.Load(off+model.Addr(a), expr.Width(w)) })
					if ok && ex != nil {
						rets = append(rets, returned{ex, ir.Show(ex)})
					}
					eng.Catch(func() {
						mm := mem.Missing(off+model.Addr(a), expr.Width(w))
						if d, _ := ivString(mm, off); d != "" {
							midBlocks = append(midBlocks, returnedBlocks{mm, d})
						}
					})
				}
			}
			// ... and the block list (whatever it caches must not survive the next store)
			eng.Catch(func() {
				bm := mem.Blocks()
				d, _ := ivString(bm, off)
				midBlocks = append(midBlocks, returnedBlocks{bm, d})
			})
		}
	}
	if f := surface(site, mem, mdl, off, c, lo); f != nil {
		return f, trans
	}
	for _, h := range hs {
		if ir.Show(h.e) != h.dig {
			return &eng.Fail{Sig: site + " alters-handed-value", What: fmt.Sprintf("%s was %s and is now %s", h.what, h.dig, ir.Show(h.e)), Case: c}, trans
		}
	}
	for _, b := range midBlocks {
		if d, _ := ivString(b.m, off); d != b.dig {
			return &eng.Fail{Sig: site + " alters-returned-blocks", What: fmt.Sprintf("an interval map returned by Blocks() or Missing() mid-history was %s and is now %s", b.dig, d), Case: c}, trans
		}
	}
	for _, r := range rets {
		if ir.Show(r.e) != r.dig {
			return &eng.Fail{Sig: site + " alters-returned-value", What: fmt.Sprintf("a value returned by Load was %s and is now %s", r.dig, ir.Show(r.e)), Case: c}, trans
		}
	}
	for i, s := range srcSlices {
		for j := range s {
			if s[j] != srcCopies[i][j]^0xff {
				return &eng.Fail{Sig: site + " alters-source-slice", What: "a byte slice given to NewBytes was modified by the memory", Case: c}, trans
			}
		}
	}
	if base != nil {
		bc := c
		if f := surface("Overlay.base", base, baseMdl, off, bc, lo); f != nil {
			f.Sig = "Overlay base-modified"
			f.What = "base memory changed by overlay writes: " + f.What
			return f, trans
		}
	}
	return nil, trans
}

func memReplay(r *eng.Run, raw json.RawMessage) *eng.Fail {
	var c memCase
	if err := json.Unmarshal(raw, &c); err != nil {
		panic(err)
	}
	f, _ := memRun(c)
	return f
}

// histories enumerates all op sequences of length 1..depth over alpha,
// sharded by first op.
func histories(r *eng.Run, alpha []memOp, depth int, f func(ops []memOp)) {
	r.Par(len(alpha), func(i0 int) {
		var rec func(ops []memOp)
		rec = func(ops []memOp) {
			f(ops)
			if len(ops) < depth {
				for _, o := range alpha {
					rec(append(ops[:len(ops):len(ops)], o))
				}
			}
		}
		rec([]memOp{alpha[i0]})
	})
}

func memAlpha(addrs, ws []int, kinds []string) []memOp {
	var out []memOp
	for _, k := range kinds {
		for _, w := range ws {
			if (k == "narrow" || k == "narrowsym") && w == 1 {
				continue
			}
			for _, a := range addrs {
				out = append(out, memOp{a, w, k})
			}
		}
	}
	return out
}

func seq(lo, hi int) []int {
	var out []int
	for i := lo; i <= hi; i++ {
		out = append(out, i)
	}
	return out
}

// memDoRW runs a history with every read/write interleaving class: reads after every store
// (default), no reads between the stores, and no reads at all before the final surface.
func memDoRW(r *eng.Run, c memCase) {
	memDo(r, c)
	if len(c.Ops) >= 2 {
		c.NoMidReads = true
		memDo(r, c)
		c.NoInitialReads = true
		memDo(r, c)
	}
}

func memDo(r *eng.Run, c memCase) {
	f, t := memRun(c)
	r.Eval(1)
	r.State(1)
	r.Trace(1)
	r.Trans(t)
	if len(c.Ops) > 1 {
		r.Nontrivial(1)
	}
	if f != nil {
		r.Report(f)
		r.Outcome(f.Sig)
	}
}

func init() {
	checks["C14"] = eng.Check{
		Hist:        true,
		Rule:        "Sparse memory: every history (no state merging) of <=2 stores over the full alphabet (addr 0..5 x width 1..4 x value kinds {exact constant, symbolic register, value narrower than the write, value wider than the write, wide symbolic, a narrowing width gadget over a wide register, a binary expression, an all-zero constant}) and of 3 stores (quick: addr 0..4, widths 1..4, kinds const/sym; thorough: full alphabet; thorough also 4 stores over addr 0..3, widths 1..3, const/sym; plus histories of 2..3 stores ending with a store of exactly the bytes the memory already holds there; plus every history of 3 stores whose first and last store write ONE expression — the same 8-byte register or the same 4-byte constant — at any address 0..4 and width 1..4 with any such store or a constant store in between), on a fresh real Sparse each; after each history every Load(a,w), Missing(a,w) for a in 0..8, w in 1..4 and Blocks() compared with a byte map (values under 3 valuations); digests of all values handed in / returned mid-history re-checked at the end. Between the stores of a history the memory is read as well (Load and Missing at the narrowest and widest width from every address, Blocks()), so that anything cached by a read has to survive the next store; histories of 2 stores are additionally run with no reads between the stores and with no reads before the end; wide loads (every width 1..72) over five layouts of many blocks (incl. zero constants and constants whose low half is zero). Repeated with all addresses shifted to just below 2^64 (the 2-store histories with an additional block near address 0, i.e. blocks in both halves of the address space); single Load / Missing / Store calls on the ranges of 1, 2 and 4 bytes that end exactly at 2^64. Non-trivial = history of >=2 stores.",
		Assumptions: []string{"address ranges do not wrap around 2^64", "write widths 1..4 (wider writes are covered by a few hand-picked wide cases only)"},
		Run: func(r *eng.Run) {
			full := memAlpha(seq(0, 5), seq(1, 4), []string{"const", "sym", "narrow", "wide", "symwide", "gadgetnarrow", "binsym", "zero"})
			small := memAlpha(seq(0, 4), seq(1, 4), []string{"const", "sym"})
			same := memAlpha(seq(0, 4), seq(1, 4), []string{"const", "sym", "samecopy"})
			tiny := memAlpha(seq(0, 3), seq(1, 3), []string{"const", "sym"})
			again := memAlpha(seq(0, 4), seq(1, 4), []string{"const", "symsame", "constsame"})
			r.Note("alphabet full=%d small=%d tiny=%d", len(full), len(small), len(tiny))
			for _, top := range []bool{false, true} {
				top := top
				memDo(r, memCase{Mem: "sparse", Top: top, MaxA: 8, MaxW: 4})
				histories(r, full, 2, func(ops []memOp) {
					memDoRW(r, memCase{Mem: "sparse", Ops: append([]memOp{}, ops...), Top: top, Far: top, MaxA: 8, MaxW: 4})
				})
				// stores of the value the memory already holds (no-op stores), last in the history
				histories(r, same, 3, func(ops []memOp) {
					if n := len(ops); n >= 2 && ops[n-1].Kind == "samecopy" && ops[0].Kind != "samecopy" && (n == 2 || ops[1].Kind != "samecopy") {
						memDo(r, memCase{Mem: "sparse", Ops: append([]memOp{}, ops...), Top: top, MaxA: 8, MaxW: 4})
					}
				})
				// one expression written twice (at other widths and addresses) with another store in
				// between: what is left of its first write is not what its second write puts there
				histories(r, again, 3, func(ops []memOp) {
					if len(ops) == 3 && ops[0].Kind != "const" && ops[2].Kind != "const" {
						memDo(r, memCase{Mem: "sparse", Ops: append([]memOp{}, ops...), Top: top, MaxA: 8, MaxW: 4})
					}
				})
				if r.Quick() {
					histories(r, small, 3, func(ops []memOp) {
						if len(ops) == 3 {
							memDo(r, memCase{Mem: "sparse", Ops: append([]memOp{}, ops...), Top: top, MaxA: 8, MaxW: 4})
						}
					})
				} else {
					histories(r, full, 3, func(ops []memOp) {
						if len(ops) == 3 {
							memDo(r, memCase{Mem: "sparse", Ops: append([]memOp{}, ops...), Top: top, MaxA: 8, MaxW: 4})
						}
					})
					if !top {
						histories(r, tiny, 4, func(ops []memOp) {
							if len(ops) == 4 {
								memDo(r, memCase{Mem: "sparse", Ops: append([]memOp{}, ops...), Top: top, MaxA: 7, MaxW: 4})
							}
						})
					}
				}
			}
			// hand-picked wide writes up to 255 bytes (value narrower than a write wider than 32 bytes; byte offsets whose bit count exceeds 255)
			for _, w := range []int{8, 16, 33, 40, 64, 255} {
				for _, k := range []string{"const", "narrow", "sym", "byteval"} {
					for _, a2 := range []int{0, 1, w - 1, w / 2, 31, 32, 33, 63, 64, 254} {
						if a2 >= w {
							continue
						}
						memDo(r, memCase{Mem: "sparse", Ops: []memOp{{0, w, k}, {a2, 1, "const"}}, MaxA: w + 1, MaxW: 4})
					}
				}
			}
			// wide loads (up to 72 bytes) composed of many stored blocks: every load width at the
			// first addresses over block layouts reaching beyond 32 and 64 bytes
			for _, lay := range [][]memOp{
				{{0, 8, "const"}, {8, 8, "sym"}, {16, 16, "const"}, {32, 4, "const"}, {36, 2, "sym"}, {38, 1, "const"}, {39, 8, "const"}},
				{{0, 1, "const"}, {1, 33, "const"}, {34, 8, "sym"}, {42, 30, "const"}},
				{{0, 40, "narrow"}, {33, 2, "const"}, {64, 8, "const"}, {40, 24, "sym"}},
				// blocks holding zero constants and constants whose low half is zero, not first in the read
				{{0, 4, "const"}, {4, 16, "lowzero"}, {20, 8, "zero"}, {28, 20, "lowzero"}, {48, 4, "const"}},
				{{0, 2, "zero"}, {2, 18, "lowzero"}, {20, 17, "lowzero"}, {37, 1, "const"}},
			} {
				memDo(r, memCase{Mem: "sparse", Ops: lay, MaxA: 3, MaxW: 72})
				memDo(r, memCase{Mem: "overlay", Base: "bytes", Blocks: []memBlock{{2, "b2b3b4"}, {35, "c5"}}, Ops: lay, MaxA: 3, MaxW: 72})
			}
			memTopEnd(r, []memCase{{Mem: "sparse"}})
			r.Sample(memCase{Mem: "sparse", Ops: []memOp{{0, 4, "sym"}, {1, 2, "const"}, {2, 4, "wide"}}, MaxA: 8, MaxW: 4})
		},
		Replay: memReplay,
	}
}
