package main

import (
	"fmt"
	"strings"

	"mltwist/verifh/eng"
)

// layoutRuns turns a bitmask over addresses 0..n-1 into blocks (one per run)
// with distinct bytes.
func layoutRuns(mask, n int) []memBlock {
	var out []memBlock
	for i := 0; i < n; {
		if mask>>i&1 == 0 {
			i++
			continue
		}
		j := i
		s := ""
		for j < n && mask>>j&1 == 1 {
			s += fmt.Sprintf("%02x", 0xa0+j)
			j++
		}
		out = append(out, memBlock{i, s})
		i = j
	}
	return out
}

func init() {
	checks["C15"] = eng.Check{
		Hist:        true,
		Rule:        "Bytes memory. (a) creation: every ordered list of <=3 non-empty blocks (begin 0..7, length 1..3, distinct bytes) incl. overlapping, adjacent and unsorted ones: NewBytes fails iff two blocks share an address, otherwise the full read surface (every Load/Missing for a in 0..11, w in 1..3, Blocks) equals the byte map and the given slices are not aliased — with the blocks given as separately allocated slices and as windows of one larger buffer (slices with spare capacity, as when carved from a file image). (b) histories: for each of the 64 layouts over addresses 0..5 (one block per run) and a layout split into adjacent blocks, every history of <=2 (quick) / <=3 (thorough) constant stores (addr 0..7, width 1..3, constant exactly/narrower/wider than the write, or equal to the bytes already present) on a fresh real Bytes; full surface after each history; histories of >=2 stores in three read/write interleavings (reads after every store, none between the stores, none before the end); digests of constants handed in and expressions returned re-checked. Reads of every width 1..72 from an 80-byte block before and after narrow and wide (33, 64, 255 bytes) stores into, across and beyond it. Plus 20 initial blocks (some adjacent) handed to NewBytes in sorted, reversed, interleaved and rotated order, read and written across. Non-trivial = history with >=2 stores or creation from >=2 blocks.",
		Assumptions: []string{"initial blocks are non-empty", "only constants are stored (documented precondition of Bytes.Store)", "no address wrap"},
		Run: func(r *eng.Run) {
			// (a) creation
			var blocks []memBlock
			for b := 0; b <= 7; b++ {
				for l := 1; l <= 3; l++ {
					s := ""
					for i := 0; i < l; i++ {
						s += fmt.Sprintf("%02x", 0x10*l+b+i*3)
					}
					blocks = append(blocks, memBlock{b, s})
				}
			}
			r.Note("creation: %d blocks, ordered lists of <=3", len(blocks))
			r.Par(len(blocks), func(i int) {
				for j := -1; j < len(blocks); j++ {
					for k := -1; k < len(blocks); k++ {
						if j < 0 && k >= 0 {
							continue
						}
						l := []memBlock{blocks[i]}
						if j >= 0 {
							l = append(l, blocks[j])
						}
						if k >= 0 {
							l = append(l, blocks[k])
						}
						for _, sharedBuf := range []bool{false, true} {
							// blocks as separately allocated slices, and as windows of one buffer
							c := memCase{Mem: "bytes", Blocks: l, MaxA: 11, MaxW: 3, SharedBuf: sharedBuf}
							f, _ := memRun(c)
							r.Eval(1)
							r.State(1)
							r.Trace(1)
							if len(l) > 1 {
								r.Nontrivial(1)
							}
							if f != nil {
								r.Report(f)
								r.Outcome(f.Sig)
							} else {
								r.Outcome(fmt.Sprint("created overlap=", blocksOverlap(l)))
							}
						}
					}
				}
			})
			memDo(r, memCase{Mem: "bytes", MaxA: 4, MaxW: 3})
			// (b) histories
			alpha := memAlpha(seq(0, 7), seq(1, 3), []string{"const", "narrow", "wide", "samecopy", "zero"})
			depth := 2
			if !r.Quick() {
				depth = 3
			}
			r.Note("histories: %d ops, depth %d, 65 layouts", len(alpha), depth)
			var layouts [][]memBlock
			for m := 0; m < 64; m++ {
				layouts = append(layouts, layoutRuns(m, 6))
			}
			layouts = append(layouts, []memBlock{{3, "b3"}, {0, "b0b1"}, {2, "b2"}}) // adjacent, unsorted
			for _, top := range []bool{false, true} {
				for li, lay := range layouts {
					if top && li%9 != 0 {
						continue
					}
					if r.Quick() && li%3 != 1 && li != 64 {
						// quick: depth-1 histories on every layout, deeper ones on every third
						lay := lay
						histories(r, alpha, 1, func(ops []memOp) {
							memDo(r, memCase{Mem: "bytes", Blocks: lay, Ops: append([]memOp{}, ops...), Top: top, Far: top, MaxA: 11, MaxW: 3})
						})
						continue
					}
					lay, top := lay, top
					d := depth
					if top && d > 2 {
						d = 2
					}
					histories(r, alpha, d, func(ops []memOp) {
						c := memCase{Mem: "bytes", Blocks: lay, Ops: append([]memOp{}, ops...), Top: top, Far: top, MaxA: 11, MaxW: 3}
						if len(ops) <= 2 {
							memDoRW(r, c) // all read/write interleavings
						} else {
							memDo(r, c)
						}
					})
				}
			}
			// wide loads (every width 1..72) from a long block, before and after stores that split it
			long := ""
			for i := 0; i < 80; i++ {
				long += fmt.Sprintf("%02x", 0x80+i)
			}
			for _, ops := range [][]memOp{nil, {{33, 2, "const"}}, {{31, 3, "const"}, {64, 1, "const"}}, {{80, 4, "const"}, {0, 1, "const"}},
				// wide stores (33, 64 and 255 bytes; exact, narrower and wider constants) into, across and beyond the block
				{{2, 33, "const"}}, {{40, 64, "narrow"}}, {{70, 33, "wide"}, {1, 2, "const"}}, {{0, 255, "const"}, {100, 3, "const"}}, {{79, 255, "narrow"}}} {
				memDoRW(r, memCase{Mem: "bytes", Blocks: []memBlock{{0, long}}, Ops: ops, MaxA: 12, MaxW: 72})
			}
			// 20 initial blocks (more than a library sort handles by insertion; some adjacent) handed
			// to NewBytes in sorted, reversed, interleaved and rotated order, then written across
			{
				const nm = 20
				var many []memBlock
				for i := 0; i < nm; i++ {
					a := i * 5
					if i%3 == 2 {
						a-- // directly adjacent to its predecessor
					}
					many = append(many, memBlock{a, fmt.Sprintf("%02x%02x%02x%02x", 0x40+i, 0x60+i, 0x80+i, 0xa0+i)[:2*(3+i%2)]})
				}
				perms := []func(i int) int{
					func(i int) int { return i },
					func(i int) int { return nm - 1 - i },
					func(i int) int {
						if i < nm/2 {
							return 2 * i
						}
						return 2*(i-nm/2) + 1
					},
				}
				for k := 1; k < nm; k += 3 {
					k := k
					perms = append(perms, func(i int) int { return (i + k) % nm })
				}
				for _, pf := range perms {
					var bl []memBlock
					for i := 0; i < nm; i++ {
						bl = append(bl, many[pf(i)])
					}
					for _, ops := range [][]memOp{nil, {{7, 4, "const"}}, {{2, 64, "const"}, {50, 3, "const"}}} {
						memDoRW(r, memCase{Mem: "bytes", Blocks: bl, Ops: ops, MaxA: 104, MaxW: 4})
					}
				}
			}
			memTopEnd(r, []memCase{{Mem: "bytes"}})
			r.Sample(memCase{Mem: "bytes", Blocks: layoutRuns(0b101100, 6), Ops: []memOp{{0, 2, "const"}, {1, 3, "wide"}}, MaxA: 11, MaxW: 3})
		},
		Replay: memReplay,
	}

	checks["C16"] = eng.Check{
		Hist:        true,
		Rule:        "Overlay(base, Sparse): base = each of the 64 Bytes layouts over addresses 0..5 and 4 pre-filled (fragmented, symbolic) Sparse memories and 3 bases holding zero bytes; every history of <=2 (quick) / <=3 (thorough) stores (addr 0..5, width 1..3 (+4 quick depth<=2), constant/symbolic/narrower values and constants equal to the base layer's content at that place) through the real Overlay; after each history every Load/Missing for a in 0..7, w in {1,2,3,4,6,8} and Blocks() compared with the layered byte map (upper layer wins, else base), and the base's own full surface compared with its initial model; plus reads of every width 1..72 over 9 layouts whose layer changes lie at offsets around 32 and 64 of the read. On the sparse and zero bases and on every 16th (thorough: every) Bytes layout the histories of <=2 stores use the wide alphabet and are run in three read/write interleavings (reads after every store, none between the stores, none before the end). On the sparse, the zero and every 8th Bytes base the histories are also run over a base that retains ONE block list and returns it from every Blocks() call (the base's surface, incl. that list, must be unchanged afterwards). Non-trivial = history with >=2 stores.",
		Assumptions: []string{"no address wrap", "values judged under 3 valuations"},
		Run: func(r *eng.Run) {
			alpha := memAlpha(seq(0, 5), seq(1, 3), []string{"const", "sym", "basecopy"})
			alpha2 := memAlpha(seq(0, 5), seq(1, 4), []string{"const", "sym", "narrow", "gadgetnarrow", "basecopy", "samecopy", "zero"})
			if r.Quick() {
				alpha2 = memAlpha(seq(0, 4), []int{1, 2, 4}, []string{"const", "sym", "narrow", "gadgetnarrow", "basecopy", "samecopy", "zero"})
			}
			depth := 2
			if !r.Quick() {
				depth = 3
			}
			type base struct {
				kind   string
				blocks []memBlock
				pre    []memOp
			}
			var bases []base
			for m := 0; m < 64; m++ {
				bases = append(bases, base{kind: "bytes", blocks: layoutRuns(m, 6)})
			}
			bases = append(bases,
				base{kind: "sparse"},
				base{kind: "sparse", pre: []memOp{{0, 4, "sym"}}},
				base{kind: "sparse", pre: []memOp{{0, 4, "sym"}, {1, 2, "const"}}},
				base{kind: "sparse", pre: []memOp{{1, 2, "const"}, {4, 2, "sym"}, {2, 1, "const"}}},
				// bases holding zero bytes (a zero-filled image; zero and non-zero bytes mixed)
				base{kind: "bytes", blocks: []memBlock{{0, "000000000000"}}},
				base{kind: "bytes", blocks: []memBlock{{0, "0000a300"}, {5, "00"}}},
				base{kind: "sparse", pre: []memOp{{0, 4, "zero"}, {4, 2, "const"}}},
			)
			r.Note("bases=%d alphabet=%d/%d depth=%d", len(bases), len(alpha), len(alpha2), depth)
			for bi, b := range bases {
				b := b
				memDo(r, memCase{Mem: "overlay", Base: b.kind, Blocks: b.blocks, Pre: b.pre, MaxA: 7, MaxW: 4, ExtraW: []int{6, 8}})
				a2 := alpha2
				if r.Quick() && bi%16 != 3 && bi < 64 {
					a2 = alpha // quick: the wide alphabet on every 16th layout, the sparse and the zero bases only
				}
				do := memDo
				if !r.Quick() || bi%16 == 3 || bi >= 64 {
					do = memDoRW // all read/write interleavings
				}
				histories(r, a2, 2, func(ops []memOp) {
					do(r, memCase{Mem: "overlay", Base: b.kind, Blocks: b.blocks, Pre: b.pre, Ops: append([]memOp{}, ops...), MaxA: 7, MaxW: 4, ExtraW: []int{6, 8}})
				})
				if depth >= 3 {
					histories(r, alpha, 3, func(ops []memOp) {
						if len(ops) == 3 {
							memDo(r, memCase{Mem: "overlay", Base: b.kind, Blocks: b.blocks, Pre: b.pre, Ops: append([]memOp{}, ops...), MaxA: 7, MaxW: 4, ExtraW: []int{6, 8}})
						}
					})
				}
			}
			// a base that retains its block list (an implementation outside the package may): the
			// histories of <=2 stores on the sparse, the zero and every 8th Bytes base
			for bi, b := range bases {
				if bi < 64 && bi%8 != 5 {
					continue
				}
				b := b
				histories(r, alpha, 2, func(ops []memOp) {
					memDo(r, memCase{Mem: "overlay", Base: b.kind, Blocks: b.blocks, Pre: b.pre, Ops: append([]memOp{}, ops...), Retain: true, MaxA: 7, MaxW: 4})
				})
			}
			// top of the address space
			for _, b := range bases[60:] {
				b := b
				histories(r, alpha, 2, func(ops []memOp) {
					memDo(r, memCase{Mem: "overlay", Base: b.kind, Blocks: b.blocks, Pre: b.pre, Ops: append([]memOp{}, ops...), Top: true, Far: true, MaxA: 7, MaxW: 4, ExtraW: []int{6, 8}})
				})
			}
			// wide reads (every width 1..72 from the first addresses) that change layer far into the read:
			// a long base block with small upper-layer writes at offsets around 32 and 64, and a base
			// with holes that the upper layer fills
			long := strings.Repeat("d0d1d2d3d4d5d6d7", 10)
			for _, ops := range [][]memOp{
				{{33, 1, "const"}, {40, 2, "sym"}, {64, 4, "const"}, {70, 3, "const"}},
				{{31, 2, "const"}, {32, 1, "sym"}, {63, 2, "const"}},
				{{0, 1, "const"}, {35, 3, "const"}, {66, 1, "const"}},
			} {
				memDo(r, memCase{Mem: "overlay", Base: "bytes", Blocks: []memBlock{{0, long}}, Ops: ops, MaxA: 3, MaxW: 72})
				memDo(r, memCase{Mem: "overlay", Base: "bytes", Blocks: []memBlock{{0, long[:60]}, {36, long[:80]}}, Ops: append([]memOp{{30, 6, "const"}}, ops...), MaxA: 3, MaxW: 72})
				memDo(r, memCase{Mem: "overlay", Base: "sparse", Pre: []memOp{{0, 30, "const"}, {34, 20, "sym"}, {60, 16, "const"}}, Ops: append([]memOp{{30, 4, "const"}, {54, 6, "sym"}}, ops...), MaxA: 3, MaxW: 72})
			}
			memTopEnd(r, []memCase{{Mem: "overlay", Base: "bytes"}, {Mem: "overlay", Base: "sparse"}})
			r.Sample(memCase{Mem: "overlay", Base: "bytes", Blocks: layoutRuns(0b110011, 6), Ops: []memOp{{1, 3, "sym"}, {2, 1, "const"}}, MaxA: 7, MaxW: 4, ExtraW: []int{6, 8}})
		},
		Replay: memReplay,
	}
}
