package main

import (
	"fmt"
	"math/big"
	"sync"

	"mltwist/pkg/expr"
	"mltwist/pkg/expr/exprtools"
	"mltwist/verifh/eng"
	"mltwist/verifh/ir"
)

// Shared expression-tree spaces and valuations of C09, C12, C13, C28.
//
// A tree is addressed by (space, index) so that a replay file can name it; the
// enumeration is deterministic.

// leaf alphabets are built afresh for every space so that a constant corrupted
// by the code under test cannot leak into a rebuilt space (see resetSpaces).
func leaves9() []expr.Expr {
	return []expr.Expr{
		ir.ConstU(0, 1), ir.ConstU(1, 1), ir.ConstU(0xff, 1), ir.ConstU(0x0100, 2), ir.ConstU(0xffff, 2),
		expr.NewRegLoad("r1", 1), expr.NewRegLoad("r1", 2), expr.NewRegLoad("r1", 4), expr.NewRegLoad("r2", 1),
		// a constant in an unusual but legal form: narrowed from a wider one, so its byte slice has
		// spare capacity holding the non-zero bytes that were cut off (value 0x2211, hidden 0x4433)
		ir.ConstU(0x44332211, 4).WithWidth(2),
	}
}

func leaves4() []expr.Expr {
	return []expr.Expr{ir.ConstU(1, 1), ir.ConstU(0xffff, 2), expr.NewRegLoad("r1", 2), expr.NewRegLoad("r2", 1)}
}

func leaves2() []expr.Expr { return []expr.Expr{ir.ConstU(0x01ff, 2), expr.NewRegLoad("r1", 2)} }

var (
	ws123 = []expr.Width{1, 2, 3}
	ws12  = []expr.Width{1, 2}
)

// resetSpaces forgets every built space; the next use rebuilds it from fresh leaves.
func resetSpaces() {
	for _, s := range spaces {
		s.once = sync.Once{}
		s.trees = nil
	}
}

type treeSpace struct {
	name  string
	build func() []expr.Expr
	once  sync.Once
	trees []expr.Expr
}

func (s *treeSpace) get() []expr.Expr {
	s.once.Do(func() { s.trees = s.build() })
	return s.trees
}

// gadget chains in consumer contexts
func gadgetSpace() []expr.Expr {
	bases := []expr.Expr{
		expr.NewRegLoad("r1", 1), expr.NewRegLoad("r1", 2), expr.NewRegLoad("r1", 4),
		ir.ConstU(0x01ff, 2),
		expr.NewMemLoad("mem", expr.NewRegLoad("r2", 1), 2),
		expr.NewBinary(expr.Mul, expr.NewRegLoad("r1", 2), expr.NewRegLoad("r1", 2), 3),
		// conditionals that compare operands WIDER than themselves (the comparison is made at the
		// conditional's own width), with branches that fit
		expr.NewLess(expr.NewRegLoad("r1", 2), ir.ConstU(0x0100, 2), ir.ConstU(1, 1), ir.ConstU(0, 1), 1),
		expr.NewLess(expr.NewRegLoad("r2", 4), expr.NewRegLoad("r1", 4), ir.ConstU(0x0201, 2), expr.NewRegLoad("r2", 1), 2),
		// right shifts by a constant number of BITS that is no whole number of bytes (what is known
		// to be zero afterwards ends inside a byte), and a left shift of a narrower value
		expr.NewBinary(expr.Rsh, expr.NewRegLoad("r1", 2), ir.ConstU(1, 1), 2),
		expr.NewBinary(expr.Rsh, expr.NewRegLoad("r1", 4), ir.ConstU(9, 1), 4),
		expr.NewBinary(expr.Lsh, expr.NewRegLoad("r1", 1), ir.ConstU(7, 1), 2),
	}
	gw := []expr.Width{1, 2, 3, 4}
	var chains []expr.Expr
	for _, b := range bases {
		lvl := []expr.Expr{b}
		for d := 0; d < 3; d++ {
			var next []expr.Expr
			for _, e := range lvl {
				for _, w := range gw {
					next = append(next, exprtools.NewWidthGadget(e, w))
				}
			}
			chains = append(chains, next...)
			lvl = next
		}
	}
	other := expr.NewRegLoad("r2", 1)
	var out []expr.Expr
	for _, c := range chains {
		out = append(out, c)
		for _, w := range gw {
			for _, op := range ir.Ops {
				out = append(out, expr.NewBinary(op, c, other, w), expr.NewBinary(op, other, c, w))
			}
			out = append(out,
				expr.NewLess(c, other, expr.One, expr.Zero, w),
				expr.NewLess(other, c, expr.One, expr.Zero, w),
				expr.NewLess(other, expr.One, c, expr.Zero, w),
				expr.NewLess(other, expr.One, expr.Zero, c, w),
			)
		}
		for _, w := range []expr.Width{1, 2, 3} {
			out = append(out, expr.NewMemLoad("mem", c, w))
			// address gadget below a consumer
			out = append(out, expr.NewBinary(expr.Add, expr.NewMemLoad("mem", c, w), other, 2))
		}
	}
	return out
}

func wideSpace() []expr.Expr {
	var out []expr.Expr
	for _, w := range []expr.Width{8, 9, 16, 17, 255} {
		lv := []expr.Expr{
			ir.Const(new(big.Int).Sub(ir.Mod(w), big.NewInt(1)), w), ir.ConstU(0x1ff, 2),
			expr.NewRegLoad("r1", w), expr.NewRegLoad("r1", 4), expr.NewRegLoad("r2", 1),
			// non-zero constants whose low bytes are all zero: only the top byte set, and (from 9
			// bytes on) 2^64, which is zero to anything that looks at 8 bytes
			ir.Const(new(big.Int).Lsh(big.NewInt(1), uint(w-1)*8), w),
		}
		if w > 8 {
			lv = append(lv, ir.Const(new(big.Int).Lsh(big.NewInt(1), 64), w))
		}
		out = append(out, ir.Collect(lv, nil, []expr.Width{w, w - 1})...)
	}
	return out
}

var spaces = map[string]*treeSpace{}

func addSpace(name string, b func() []expr.Expr) {
	spaces[name] = &treeSpace{name: name, build: b}
}

func init() {
	addSpace("leaf", func() []expr.Expr { return leaves9() })
	addSpace("t1", func() []expr.Expr { return ir.Collect(leaves9(), nil, ws123) })
	addSpace("t1small", func() []expr.Expr { return ir.Collect(leaves4(), nil, ws123) })
	addSpace("t2", func() []expr.Expr { return ir.Collect(leaves4(), spaces["t1small"].get(), ws123) })
	addSpace("t1tiny", func() []expr.Expr { return ir.Collect(leaves2(), nil, ws12) })
	addSpace("t2tiny", func() []expr.Expr { return ir.Collect(leaves2(), spaces["t1tiny"].get(), ws12) })
	addSpace("t3tiny", func() []expr.Expr { return ir.Collect(leaves2(), spaces["t2tiny"].get(), ws12) })
	addSpace("gadget", gadgetSpace)
	addSpace("wide", wideSpace)
	// twin conditionals: Binary(op, L1, L2) where both operands are conditionals on the SAME outer
	// condition whose arms hold further, independent conditionals (5..7 internal nodes); also as
	// a memory-load address and as Less branches
	addSpace("twin", func() []expr.Expr {
		r := func(k string) expr.Expr { return expr.NewRegLoad(expr.Key(k), 2) }
		k := func(v uint64) expr.Expr { return ir.ConstU(v, 2) }
		outer := func(t, f expr.Expr, w expr.Width) expr.Expr { return expr.NewLess(r("r1"), r("r2"), t, f, w) }
		in1 := func(a, b uint64) expr.Expr { return expr.NewLess(r("r3"), r("r4"), k(a), k(b), 2) }
		in2 := func(a, b uint64) expr.Expr { return expr.NewLess(r("r5"), r("r6"), k(a), k(b), 2) }
		var arms1 = []expr.Expr{in1(0x1000, 0x2000), k(0x3000), expr.NewBinary(expr.Add, in1(0x100, 0x200), k(1), 2)}
		var arms2 = []expr.Expr{in2(0x10, 0x20), k(0x30), expr.NewBinary(expr.Add, in2(1, 2), k(4), 2)}
		var ls1, ls2 []expr.Expr
		for _, t := range arms1 {
			for _, f := range arms1 {
				ls1 = append(ls1, outer(t, f, 2), outer(t, f, 3))
			}
		}
		for _, t := range arms2 {
			for _, f := range arms2 {
				ls2 = append(ls2, outer(t, f, 2), expr.NewLess(r("r2"), r("r1"), t, f, 2))
			}
		}
		var out []expr.Expr
		for _, a := range ls1 {
			for _, b := range ls2 {
				for _, op := range []expr.BinaryOp{expr.Add, expr.Nand, expr.Mul} {
					out = append(out, expr.NewBinary(op, a, b, 3))
				}
				out = append(out, expr.NewMemLoad("mem", expr.NewBinary(expr.Add, a, b, 2), 2), expr.NewLess(r("r3"), r("r5"), a, b, 2))
			}
		}
		return out
	})
	// chains of decided conditionals: Less_w(c?c, Less_g(c?c, X_a, k), k) and mirrored — the folder
	// resolves both conditions and has to adjust the non-constant X from width a through g to w
	// (narrow-then-widen keeps the cut); X = binary, memory load, undecided conditional
	addSpace("condchain", func() []expr.Expr {
		r1, r2 := expr.NewRegLoad("r1", 4), expr.NewRegLoad("r2", 4)
		var out []expr.Expr
		ws := []expr.Width{1, 2, 3, 4}
		conds := [][2]expr.Expr{{ir.ConstU(1, 1), ir.ConstU(2, 1)}, {ir.ConstU(2, 1), ir.ConstU(1, 1)}, {ir.ConstU(0x0100, 2), ir.ConstU(1, 1)}}
		for _, a := range ws {
			xs := []expr.Expr{
				expr.NewBinary(expr.Add, r1, r2, a),
				expr.NewMemLoad("mem", r1, a),
				expr.NewLess(r1, r2, r2, ir.ConstU(0x0807, 2), a),
				exprtools.NewWidthGadget(expr.NewBinary(expr.Mul, r1, r2, 4), a),
			}
			for _, x := range xs {
				for _, g := range ws {
					for _, w := range ws {
						for _, ci := range conds {
							for _, co := range conds {
								k := ir.ConstU(0xa5, 1)
								inT := expr.NewLess(ci[0], ci[1], x, k, g)
								inF := expr.NewLess(ci[0], ci[1], k, x, g)
								out = append(out,
									expr.NewLess(co[0], co[1], inT, k, w), expr.NewLess(co[0], co[1], k, inF, w),
									expr.NewBinary(expr.Add, inT, ir.ConstU(1, 1), w))
							}
						}
					}
				}
			}
		}
		return out
	})
	// constants only: everything must fold to one constant
	addSpace("const2", func() []expr.Expr {
		cl := []expr.Expr{ir.ConstU(0, 1), ir.ConstU(3, 1), ir.ConstU(0xff, 1), ir.ConstU(0x0100, 2), ir.ConstU(0xfffe, 2), ir.ConstU(0x010203, 3)}
		var noMem []expr.Expr
		for _, e := range ir.Collect(cl, nil, ws123) {
			if _, ok := e.(expr.MemLoad); !ok {
				noMem = append(noMem, e)
			}
		}
		var out []expr.Expr
		out = append(out, noMem...)
		for _, e := range ir.Collect(cl[1:4], noMem, ws12) {
			if _, ok := e.(expr.MemLoad); !ok {
				out = append(out, e)
			}
		}
		return out
	})
}

type treeRef struct {
	Space string `json:"space"`
	Index int    `json:"index"`
	Show  string `json:"expr,omitempty"`
	// Jumps (C13): the tree is judged as an instruction-pointer write through the code model
	Jumps bool `json:"jumps,omitempty"`
}

func (t treeRef) expr() expr.Expr { return spaces[t.Space].get()[t.Index] }

func treeSpacesFor(r *eng.Run) []string {
	if r.Quick() {
		return []string{"leaf", "t1", "t2", "gadget", "condchain", "wide", "const2"}
	}
	return []string{"leaf", "t1", "t2", "t3tiny", "gadget", "condchain", "wide", "const2"}
}

// forTrees runs f on every tree of the tier's spaces, in parallel.
func forTrees(r *eng.Run, names []string, f func(ref treeRef, e expr.Expr)) {
	for _, n := range names {
		ts := spaces[n].get()
		r.Note("space %s: %d trees", n, len(ts))
		const chunk = 512
		nchunks := (len(ts) + chunk - 1) / chunk
		n := n
		r.Par(nchunks, func(ci int) {
			for i := ci * chunk; i < (ci+1)*chunk && i < len(ts); i++ {
				f(treeRef{Space: n, Index: i}, ts[i])
			}
		})
	}
}

// valuations
type valuation struct {
	R1, R2 uint64
	Seed   uint64
	// Regs: explicit values of further registers (r3..r6); others are derived.
	Regs map[string]uint64
}

var valuations = []valuation{
	{R1: 0, R2: 0, Seed: 1}, {R1: 1, R2: 0xff, Seed: 1}, {R1: 0xff, R2: 1, Seed: 2}, {R1: 0x100, R2: 0x80, Seed: 1}, {R1: 0xffff, R2: 0xffff, Seed: 3},
	{R1: 0x10000, R2: 2, Seed: 1}, {R1: 0xffffff, R2: 0x7f, Seed: 4}, {R1: 0xffffffff, R2: 0xfe, Seed: 1}, {R1: 0x01020304050607, R2: 3, Seed: 5},
}

// twinValuations: every combination of (r1<r2?), (r3<r4?), (r5<r6?) plus r3<r5?.
var twinValuations = func() []valuation {
	var out []valuation
	for m := 0; m < 16; m++ {
		pick := func(bit int, lo, hi uint64) (uint64, uint64) {
			if m>>bit&1 == 1 {
				return lo, hi
			}
			return hi, lo
		}
		a, b := pick(0, 1, 9)
		c, d := pick(1, 2, 7)
		e, f := pick(2, 3, 8)
		if m>>3&1 == 1 {
			c, d, e, f = c+10, d+10, e, f
		}
		out = append(out, valuation{R1: a, R2: b, Seed: uint64(m + 1), Regs: map[string]uint64{"r3": c, "r4": d, "r5": e, "r6": f}})
	}
	return out
}()

func (v valuation) env() *ir.Env {
	return &ir.Env{
		Reg: func(k expr.Key) *big.Int {
			switch k {
			case "r1":
				return new(big.Int).SetUint64(v.R1)
			case "r2":
				return new(big.Int).SetUint64(v.R2)
			}
			if x, ok := v.Regs[string(k)]; ok {
				return new(big.Int).SetUint64(x)
			}
			// any other register: derived value
			h := uint64(0)
			for i := 0; i < len(k); i++ {
				h = h*131 + uint64(k[i])
			}
			return new(big.Int).SetUint64(h*0x9e3779b97f4a7c15 ^ v.R1)
		},
		Mem: func(k expr.Key, a *big.Int) byte { return ir.MixByte(k, a, v.Seed) },
	}
}

// semDiff returns a witness valuation on which a and b differ at width w, or
// nil.
func semDiff(a, b expr.Expr, w expr.Width) (*valuation, string) {
	for i := range valuations {
		v := valuations[i]
		x := ir.Adjust(ir.Eval(a, v.env()), w)
		y := ir.Adjust(ir.Eval(b, v.env()), w)
		if x.Cmp(y) != 0 {
			return &v, fmt.Sprintf("r1=%#x r2=%#x seed=%d: %x vs %x", v.R1, v.R2, v.Seed, x, y)
		}
	}
	return nil, ""
}
