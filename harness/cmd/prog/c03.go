package main

import (
	"encoding/json"
	"fmt"
	"os"
	"strings"

	"mltwist/verifh/emu"
	"mltwist/verifh/eng"
	"mltwist/verifh/prog"
)

// C03 — emulation agrees step by step with a RISC-V machine.
// C04 — the provider is asked for unknown state only, once (same driver, monitor on requests).

type c03Case struct {
	Words []uint32 `json:"words"`
	Text  []string `json:"text,omitempty"`
	Init  emu.Init `json:"init"`
	Steps int      `json:"steps"`
	Entry uint64   `json:"entry"`
	// PTY: the program is emulated by the real binary under a pseudo-terminal (c03pty.go);
	// Reenter: the emulation is left and started again before the state is compared
	PTY     bool `json:"pty,omitempty"`
	Reenter bool `json:"reenter,omitempty"`
	// Hole: the program image has a second block (two more words) that starts this many
	// words behind the end of the first one: accesses can span image, hole and image
	Hole int `json:"hole,omitempty"`
	// Data: the image has a further block of 4 words at 0x3000 that is data (never executed;
	// stores into it are ordinary stores): Init.DataImage names it.
	Data bool `json:"data_block,omitempty"`
	// AfterRefusal: a step the emulator refuses because its access ends at or wraps around 2^64
	// (the known findings) is not the end of the run: the instruction pointer is moved to the
	// next instruction in both machines and the run goes on — a refusal must leave nothing behind
	AfterRefusal bool `json:"after_refusal,omitempty"`
}

const (
	c03Base = 0x1000
	c03Data = 0x8000
	// a block of the image that holds data
	c03DataBlock = 0x3000
)

func c03Alphabet() []uint32 {
	return []uint32{
		prog.Addi(1, 0, 5), prog.Addi(1, 1, -3), prog.Add(2, 1, 1), prog.Mul(3, 1, 2), prog.Div(4, 3, 1),
		prog.Sd(1, 5, 0), prog.Sw(2, 5, 4), prog.Sh(3, 5, 2), prog.Sb(1, 5, 1),
		prog.Ld(7, 5, 0), prog.Lw(8, 5, 2), prog.Lh(9, 5, 6), prog.Lbu(10, 5, 1), prog.Lb(11, 5, 9),
		prog.Lw(12, 6, 0), prog.Lw(13, 6, -2),
		prog.Addw(14, 15, 15), prog.Add(16, 15, 0),
		prog.AmoaddW(17, 5, 1), prog.LrW(18, 5), prog.ScW(19, 5, 2),
		prog.Beq(1, 2, 8), prog.Jal(0, -8), prog.Jalr(0, 20, 0), prog.Jal(21, 4), prog.Csrrw(22, 1, 0xc00),
		// one register used as address (64-bit read) AND as data (32-bit read) of one instruction
		prog.ScW(19, 5, 5), prog.R(1<<2, 5, 5, 2, 0, 0x2f), /* amoswap.w x0,x5,(x5) */
		// x0 as the stored value (the front end models it as a 1-byte zero whatever the access width)
		prog.Sd(0, 5, 0), prog.Sw(0, 5, 4), prog.R(1<<2, 0, 5, 2, 23, 0x2f), /* amoswap.w x23,x0,(x5) */
		// destination = source / base register
		prog.Add(1, 1, 1), prog.Ld(5, 5, 0), prog.Sd(5, 5, 0), prog.Jalr(20, 20, 0), prog.AmoaddW(5, 5, 5),
	}
}

var c03Inits = []emu.Init{
	// small values everywhere: x5 data base, x6 image base, x20 = landing pad
	{X: map[int]uint64{5: c03Data, 6: c03Base, 20: c03Base + 8}, Seed: 1, Small: true},
	// full 64-bit values, indirect jump to a mid-instruction address
	{X: map[int]uint64{5: c03Data, 6: c03Base, 20: c03Base + 6, 1: 0xffffffff80000001, 15: 0x1234567890abcdef}, Seed: 2},
	// preloaded knowledge, jump to a gap after the code
	{X: map[int]uint64{5: c03Data, 6: c03Base, 20: 0x4000, 15: 0xfedcba9876543210}, Seed: 3, Small: true, PreloadRegs: []int{1, 5, 15}, PreloadMem: [][2]uint64{{c03Data + 2, 4}}},
	// data area above 2^32 (addresses that do not survive a 32-bit truncation), base register pre-loaded
	{X: map[int]uint64{5: 0x100000000 + c03Data, 6: c03Base, 20: c03Base + 4}, Seed: 4, Small: true, PreloadRegs: []int{5}},
}

func c03Layout(words []uint32) []prog.Seg {
	ws := append(append([]uint32{}, words...), prog.Nop, prog.Nop, prog.Nop, prog.Nop)
	return []prog.Seg{{Base: c03Base, Words: ws}}
}

// c03Run executes the case; monitor is called after each step (C04).
func c03Run(c c03Case, monitor func(m *emu.Machine) *eng.Fail) (f *eng.Fail, steps int, skipped string) {
	if c.PTY {
		return c03PTY(c), c.Steps, ""
	}
	segs := c03Layout(c.Words)
	if c.Hole > 0 {
		end := segs[0].Base + uint64(4*len(segs[0].Words))
		segs = append(segs, prog.Seg{Base: end + uint64(4*c.Hole), Words: []uint32{prog.Addi(3, 3, 0x7d1), prog.Addi(4, 4, 0x5d5)}})
	}
	if c.Data {
		segs = append(segs, prog.Seg{Base: c03DataBlock, Words: []uint32{prog.Addi(3, 3, 0x7d1), prog.Addi(4, 4, 0x5d5), prog.Addi(7, 8, 0x123), prog.Sd(9, 10, 0x6a8)}})
	}
	for _, w := range c.Words {
		c.Text = append(c.Text, prog.Dis(w))
	}
	ins, err := prog.Instructions(segs)
	if err != nil {
		return nil, 0, "parse: " + err.Error()
	}
	code, err := prog.Code(c.Entry, ins)
	if err != nil {
		return nil, 0, "code: " + err.Error()
	}
	in := c.Init
	m, err := emu.New(code, segs, c.Entry, &in)
	if err != nil {
		return nil, 0, "emu: " + err.Error()
	}
	refused := false
	for s := 0; s < c.Steps; s++ {
		d, done := m.Step()
		if d != nil && c.AfterRefusal && strings.HasPrefix(d.Class, "error-on-access-") {
			refused = true
			m.SkipInstruction()
			continue
		}
		if d != nil && refused {
			d.Class += " (after a refused step)"
		}
		if d != nil {
			if monitor != nil {
				// let the monitor see the requests of the failing step as well
				if f := monitor(m); f != nil {
					f.Case = c
					return f, m.Steps, ""
				}
			}
			return &eng.Fail{Sig: "emulation " + d.Class, What: fmt.Sprintf("step %d: %s", s, d.What), Case: c, Observed: d}, m.Steps, ""
		}
		if monitor != nil {
			if f := monitor(m); f != nil {
				f.Case = c
				return f, m.Steps, ""
			}
		}
		if done {
			break
		}
	}
	if m.SelfMod {
		return nil, m.Steps, "self-modifying"
	}
	return nil, m.Steps, ""
}

func c03Enumerate(r *eng.Run, f func(c c03Case)) {
	alpha := c03Alphabet()
	maxLen := 3
	if !r.Quick() {
		maxLen = 4
	}
	r.Note("alphabet=%d maxlen=%d inits=%d steps<=8", len(alpha), maxLen, len(c03Inits))
	r.Par(len(alpha), func(i0 int) {
		var rec func(ws []uint32)
		rec = func(ws []uint32) {
			for ii := range c03Inits {
				f(c03Case{Words: append([]uint32{}, ws...), Init: c03Inits[ii], Steps: 8, Entry: c03Base})
			}
			if len(ws) < maxLen {
				for _, w := range alpha {
					if len(ws) == 3 && r.Quick() {
						break
					}
					rec(append(ws[:len(ws):len(ws)], w))
				}
			}
		}
		rec([]uint32{alpha[i0]})
	})
}

func init() {
	checks["C03"] = eng.Check{
		Hist: true,
		Rule: "every RV64IMA program of <=3 (thorough 4) instructions over a 36-word alphabet built to collide (three writers of x1, negative immediates, mul/div, sd/sw/sh/sb to overlapping offsets of one base, loads inside one store / across two stores / across a store and never-written memory / inside the image / across the image start, addw (32-bit register read) followed by a 64-bit reader, amoadd.w, lr.w, sc.w, sc.w/amoswap.w using ONE register as address and data, sd/sw/amoswap.w storing x0, add/ld/sd/jalr/amoadd.w whose destination is their own source or base register, beq forward, jal backward, jalr to a register, pseudo-jump jal +4, csrrw) followed by 4 nops, through the real pipeline (elf block store -> parser -> deps.NewCode -> emulator with Overlay(Bytes(image), Sparse)); run for <=8 steps from 4 initial states (small values; full 64-bit values with an indirect jump to a mid-instruction address; pre-loaded registers/memory with a jump outside the code; data area above 2^32) supplied by the state provider. After every step pc, every register the emulator knows, every written or supplied memory byte and the step report (register/memory reads and writes with values, as sets) are compared with the reference interpreter; Step must fail exactly when pc is not an instruction start. Plus 8 three-instruction programs whose middle instruction stores to / loads from the last bytes of the address space (ending exactly at 2^64, or wrapping around it), and 42 programs in which such a refused instruction (plain and atomic) is skipped by setting the instruction pointer and the instructions behind it — and the same refused instruction once more — must behave as on the reference machine. Plus 6 programs on an image of two blocks with a one-word hole between them (loads crossing image, unknown memory and image). Plus save / clobber-a-part / restore on a DATA block of the image: a value loaded from image data is stored back over a narrower store into the same place (every width pair 2,4,8 over 1,2,4 and every offset; also another value restored; also without the narrower store) and read back. PROC conformance: 8 programs (store/load back, image read and store over the image, supplied memory partially overwritten, x0 stores, M and A instructions) emulated by the REAL BINARY under a pseudo-terminal (entry, e, one step per instruction, every state prompt answered from the initial state; also with the emulation left and started again): the register view and the memory view read off the screen must show the reference machine's registers and memory. states = program x initial state; transitions = steps executed. Non-trivial = run of >=3 steps.",
		Assumptions: []string{
			"programs storing into their own image are skipped (property excludes self-modification)",
			"the step report is compared as sets; a register read at several widths may be reported at any of them",
			"reference: harness/rvref",
		},
		Run: func(r *eng.Run) {
			c03Enumerate(r, func(c c03Case) {
				f, steps, skipped := c03Run(c, nil)
				r.Eval(1)
				if skipped != "" {
					r.Outcome("skipped " + skipped[:5])
					return
				}
				r.State(1)
				r.Trace(1)
				r.Trans(steps)
				if steps >= 3 {
					r.Nontrivial(1)
				}
				if f != nil {
					r.Report(f)
					r.Outcome(f.Sig)
				} else {
					r.Outcome(fmt.Sprint("steps=", steps))
				}
			})
			// the last bytes of the address space: accesses ending exactly at 2^64 and accesses wrapping around it
			// (a RISC-V machine performs both; address arithmetic is modulo 2^64)
			for _, w := range []uint32{prog.Sd(1, 0, -8), prog.Sw(1, 0, -4), prog.Sb(1, 0, -1), prog.Ld(7, 0, -8), prog.Lbu(7, 0, -1), prog.Lw(7, 0, -4),
				prog.Sd(1, 0, -4), prog.Lw(7, 0, -2)} {
				for _, in := range c03Inits[:2] {
					c := c03Case{Words: []uint32{prog.Addi(1, 0, 5), w, prog.Addi(2, 1, 1)}, Init: in, Steps: 4, Entry: c03Base}
					f, steps, _ := c03Run(c, nil)
					r.Eval(1)
					r.State(1)
					r.Trace(1)
					r.Trans(steps)
					if f != nil {
						r.Report(f)
						r.Outcome(f.Sig)
					}
				}
			}
			// ... and what follows a refused step: the refused instruction (plain and atomic accesses
			// ending at / wrapping around 2^64) is skipped by setting the instruction pointer, the
			// instructions behind it must execute as on the reference machine
			for _, w := range []uint32{prog.Sd(1, 24, 0), prog.Ld(7, 24, 0), prog.Lw(7, 24, 4), prog.AmoaddW(7, 24, 1), prog.R(0, 1, 24, 3, 7, 0x2f) /* amoadd.d x7,x1,(x24) */, prog.LrW(7, 24), prog.ScW(7, 24, 1)} {
				for _, a24 := range []int64{-8, -4, -2} {
					for _, in := range c03Inits[:2] {
						c := c03Case{Words: []uint32{prog.Addi(1, 0, 5), prog.Addi(24, 0, a24), w, prog.Addi(2, 1, 1), w, prog.Addi(3, 2, 1)}, Init: in, Steps: 7, Entry: c03Base, AfterRefusal: true}
						f, steps, _ := c03Run(c, nil)
						r.Eval(1)
						r.State(1)
						r.Trace(1)
						r.Trans(steps)
						if f != nil {
							r.Report(f)
							r.Outcome(f.Sig)
						}
					}
				}
			}
			// a program image of two blocks with a hole of one word between them: loads that start in
			// the first block, cross the hole (unknown memory) and end in the second one, and stores there
			// (3 program words + 4 nops: the first block is [0x1000,0x101c), the second starts at 0x1020)
			for _, w := range []uint32{prog.Ld(7, 6, 0x1a), prog.Ld(7, 6, 0x1c), prog.Lw(7, 6, 0x1e), prog.Ld(7, 6, 0x18), prog.Lh(7, 6, 0x1f), prog.Sd(1, 6, 0x1a)} {
				for _, in := range c03Inits[:2] {
					c := c03Case{Words: []uint32{w, prog.Ld(8, 6, 0x1a), prog.Lw(9, 6, 0x1c)}, Init: in, Steps: 4, Entry: c03Base, Hole: 1}
					f, steps, _ := c03Run(c, nil)
					r.Eval(1)
					r.State(1)
					r.Trace(1)
					r.Trans(steps)
					if f != nil {
						r.Report(f)
						r.Outcome(f.Sig)
					}
				}
			}
			// data inside the image: save / clobber a part / restore. A value loaded from image data is
			// stored back over a narrower store into the same place (every width pair and offset), then
			// read back; also with a different value restored, and without the narrower store.
			for _, in := range c03Inits[:2] {
				in.DataImage = [][2]uint64{{c03DataBlock, 16}}
				ld := map[int]func(rd, rs1 uint32, off int64) uint32{2: prog.Lh, 4: prog.Lw, 8: prog.Ld}
				st := map[int]func(rs2, rs1 uint32, off int64) uint32{1: prog.Sb, 2: prog.Sh, 4: prog.Sw, 8: prog.Sd}
				for _, wide := range []int{2, 4, 8} {
					for _, narrow := range []int{1, 2, 4} {
						for off := 0; narrow < wide && off+narrow <= wide; off += narrow {
							for variant := 0; variant < 3; variant++ {
								ws := []uint32{prog.Lui(24, 3), ld[wide](7, 24, 0), st[narrow](1, 24, int64(off)), st[wide](7, 24, 0), prog.Ld(8, 24, 0)}
								switch variant {
								case 1: // another value is restored
									ws[3] = st[wide](2, 24, 0)
								case 2: // no narrower store before
									ws[2] = prog.Nop
								}
								c := c03Case{Words: ws, Init: in, Steps: 6, Entry: c03Base, Data: true}
								f, steps, skipped := c03Run(c, nil)
								r.Eval(1)
								r.State(1)
								r.Trace(1)
								r.Trans(steps)
								if skipped == "" && steps >= 3 {
									r.Nontrivial(1)
								}
								if f != nil {
									r.Report(f)
									r.Outcome(f.Sig)
								}
							}
						}
					}
				}
			}
			// PROC conformance: the real binary (cmd/mltwist wiring, UI, state prompts) under a pseudo-terminal
			pc := c03PTYCases(r.Quick())
			r.ItemLimit = -1 // every process run has its own 120 s limit
			r.Par(len(pc), func(i int) {
				f := c03PTY(pc[i])
				r.Eval(1)
				r.State(1)
				r.Trace(1)
				r.Trans(pc[i].Steps)
				if f != nil {
					r.Report(f)
					r.Outcome(f.Sig)
				}
			})
			r.ItemLimit = 0
			if c03BinDir != "" {
				os.RemoveAll(c03BinDir)
				c03Bin, c03BinDir = "", ""
			}
			r.Sample(c03Case{Words: []uint32{prog.Sw(2, 5, 4), prog.Lw(8, 5, 2), prog.Beq(1, 2, 8)}, Text: []string{"sw x2,4(x5)", "lw x8,2(x5)", "beq x1,x2,+8"}, Init: c03Inits[0], Steps: 8, Entry: c03Base})
		},
		Replay: func(r *eng.Run, raw json.RawMessage) *eng.Fail {
			var c c03Case
			if err := json.Unmarshal(raw, &c); err != nil {
				panic(err)
			}
			f, _, _ := c03Run(c, nil)
			return f
		},
	}
}
