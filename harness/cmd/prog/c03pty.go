package main

import (
	"fmt"
	"os"
	"path/filepath"
	"regexp"
	"sort"
	"strconv"
	"strings"
	"sync"
	"sync/atomic"
	"time"

	"mltwist/verifh/elfgen"
	"mltwist/verifh/emu"
	"mltwist/verifh/eng"
	"mltwist/verifh/procx"
	"mltwist/verifh/prog"
)

// PROC conformance for C03: the in-process harness builds the tool's memory
// layering itself (Overlay(Bytes(image), Sparse), a fresh one per emulation);
// cmd/mltwist/main.go does the same for the real tool. To bind the two, the real
// binary is driven under a pseudo-terminal: entry, e, k steps (every prompt of the
// state provider answered with the initial machine state), the register view and
// the memory view are read off the screen and compared with the reference machine.
// With Reenter the emulation is left and started again before the comparison: a
// second emulation must start from the program image, not from what the first wrote.

var (
	c03Bin, c03BinDir string
	c03BinOnce        sync.Mutex
	c03Seq            atomic.Int64

	reRegPrompt = regexp.MustCompile(`Please enter value of register (\S+) \[(\d+) bytes\]: `)
	reMemPrompt = regexp.MustCompile(`Please enter value of memory (\S+) at address 0x([0-9a-f]+) \(\d+\) \[(\d+) bytes\]: `)
	reRegShown  = regexp.MustCompile(`\b(x\d+): 0x([0-9a-fA-F]+)`)
	reMemRow    = regexp.MustCompile(`\| 0x([0-9a-fA-F]+) - 0x[0-9a-fA-F]+ \| ([0-9A-Fa-f. ]+)`)
)

const clearSeq = "\033[H\033[2J"

func c03PTY(c c03Case) *eng.Fail {
	c03BinOnce.Lock()
	if c03Bin == "" {
		dir, err := os.MkdirTemp("", "vc03")
		if err != nil {
			panic(err)
		}
		bin, err := procx.Build(dir)
		if err != nil {
			panic(err)
		}
		c03Bin, c03BinDir = bin, dir
	}
	c03BinOnce.Unlock()

	// expected: the in-process lock-step run (itself compared with the reference machine)
	segs := c03Layout(c.Words)
	ins, err := prog.Instructions(segs)
	if err != nil {
		return nil
	}
	code, err := prog.Code(c.Entry, ins)
	if err != nil {
		return nil
	}
	in := c.Init
	m, err := emu.New(code, segs, c.Entry, &in)
	if err != nil {
		return nil
	}
	k := 0
	for s := 0; s < c.Steps; s++ {
		d, done := m.Step()
		if d != nil {
			return nil // judged by the in-process exploration
		}
		k++
		if done {
			break
		}
	}
	if len(m.Narrow) > 0 || m.SelfMod {
		return nil // known finding / outside the domain
	}
	image := map[uint64]byte{}
	for _, s := range segs {
		for i, b := range prog.Image(s.Words) {
			image[s.Base+uint64(i)] = b
		}
	}

	// the ELF file
	img := prog.Image(segs[0].Words)
	f := elfgen.File{Type: elfgen.ET_EXEC, Entry: c.Entry,
		Sections: []elfgen.Section{{Type: elfgen.SHT_PROGBITS, Flags: 6, Addr: segs[0].Base, Data: img, Size: uint64(len(img))}},
		Progs:    []elfgen.Prog{{Type: elfgen.PT_LOAD, Vaddr: segs[0].Base, Data: img, Memsz: uint64(len(img))}}}
	path := filepath.Join(c03BinDir, fmt.Sprintf("p%d-%d.elf", os.Getpid(), c03Seq.Add(1)))
	if err := os.WriteFile(path, f.Bytes(), 0o644); err != nil {
		panic(err)
	}
	defer os.Remove(path)

	// the script
	var cmds []string
	session := append([]string{"entry", "e"}, strings.Split(strings.Repeat("s ", k), " ")[:k]...)
	cmds = append(cmds, session...)
	if c.Reenter {
		cmds = append(cmds, "q")
		cmds = append(cmds, session...)
	}
	regsAt := len(cmds) // the screen painted before this command is read shows the final registers
	cmds = append(cmds, "m memory")
	memAt := len(cmds)
	cmds = append(cmds, "q", "q", "q", "q")
	idx, pos := 0, 0
	var regScreen, memScreen string
	supplied := map[uint64]byte{}
	var mu sync.Mutex
	react := func(out string) string {
		mu.Lock()
		defer mu.Unlock()
		var send strings.Builder
		for {
			rest := out[pos:]
			type hit struct {
				at, end int
				kind    string
				sub     []string
			}
			var best *hit
			consider := func(h *hit) {
				if h != nil && (best == nil || h.at < best.at) {
					best = h
				}
			}
			if i := strings.Index(rest, "Enter command: "); i >= 0 {
				consider(&hit{at: i, end: i + len("Enter command: "), kind: "cmd"})
			}
			if l := reRegPrompt.FindStringSubmatchIndex(rest); l != nil {
				consider(&hit{at: l[0], end: l[1], kind: "reg", sub: reRegPrompt.FindStringSubmatch(rest)})
			}
			if l := reMemPrompt.FindStringSubmatchIndex(rest); l != nil {
				consider(&hit{at: l[0], end: l[1], kind: "mem", sub: reMemPrompt.FindStringSubmatch(rest)})
			}
			for _, w := range []string{"Press ENTER to continue\r\n", "leaving app\r\n"} {
				if i := strings.Index(rest, w); i >= 0 {
					consider(&hit{at: i, end: i + len(w), kind: "enter"})
				}
			}
			if l := regexp.MustCompile(`leaving mode [^\r\n]*\r\n`).FindStringIndex(rest); l != nil {
				consider(&hit{at: l[0], end: l[1], kind: "enter"})
			}
			if best == nil {
				return send.String()
			}
			switch best.kind {
			case "cmd":
				screen := out[:pos+best.at]
				if j := strings.LastIndex(screen, clearSeq); j >= 0 {
					screen = screen[j+len(clearSeq):]
				}
				if idx == regsAt {
					regScreen = screen
				}
				if idx == memAt {
					memScreen = screen
				}
				if idx < len(cmds) {
					send.WriteString(cmds[idx] + "\n")
					idx++
				} else {
					send.WriteString("q\n")
				}
			case "reg":
				v := uint64(0)
				key := best.sub[1]
				if strings.HasPrefix(key, "csr") {
					n, _ := strconv.Atoi(key[3:])
					v = in.CSR(uint32(n))
				} else if n, err := strconv.Atoi(strings.TrimPrefix(key, "x")); err == nil {
					v = in.Reg(n)
				}
				if w, _ := strconv.Atoi(best.sub[2]); w < 8 {
					v &= 1<<(8*uint(w)) - 1
				}
				send.WriteString(fmt.Sprintf("%#x\n", v))
			case "mem":
				a, _ := strconv.ParseUint(best.sub[2], 16, 64)
				w, _ := strconv.Atoi(best.sub[3])
				v := uint64(0)
				for i := w - 1; i >= 0; i-- {
					b := in.MemByte(a + uint64(i))
					supplied[a+uint64(i)] = b
					if i < 8 {
						v = v<<8 | uint64(b)
					}
				}
				send.WriteString(fmt.Sprintf("%d\n", v))
			case "enter":
				send.WriteString("\n")
			}
			pos += best.end
		}
	}
	res, err := procx.RunPTYExpect(c03Bin, []string{path}, 60, 120, 120*time.Second, react)
	if err != nil {
		return nil // no pseudo-terminal here
	}
	what := fmt.Sprintf("program %v, %d steps (re-entered: %v), typed into the real binary", c.Text, k, c.Reenter)
	if cr := res.Crashed(); cr != "" {
		return &eng.Fail{Sig: "pty " + cr, What: fmt.Sprintf("%s: %s; output tail %.500q", what, cr, tail(res.Stdout, 500)), Case: c}
	}
	if res.Exit != 0 || regScreen == "" {
		return &eng.Fail{Sig: "pty session incomplete", What: fmt.Sprintf("%s: exit %d, %d of %d commands typed; output tail %.500q", what, res.Exit, idx, len(cmds), tail(res.Stdout, 500)), Case: c}
	}
	// registers shown = reference registers
	shown := map[int]uint64{}
	for _, mm := range reRegShown.FindAllStringSubmatch(regScreen, -1) {
		n, _ := strconv.Atoi(mm[1][1:])
		v, err := strconv.ParseUint(mm[2], 16, 64)
		if err != nil {
			return &eng.Fail{Sig: "pty register text", What: fmt.Sprintf("%s: register %s shown as %q", what, mm[1], mm[2]), Case: c}
		}
		shown[n] = v
	}
	var ns []int
	for n := range shown {
		ns = append(ns, n)
	}
	sort.Ints(ns)
	for _, n := range ns {
		if shown[n] != m.Ref.X[n] {
			return &eng.Fail{Sig: "pty register value", What: fmt.Sprintf("%s: the screen shows x%d = %#x, the reference machine has %#x", what, n, shown[n], m.Ref.X[n]), Case: c}
		}
	}
	for k := range m.State.Regs.Values() {
		if s := string(k); strings.HasPrefix(s, "x") {
			n, _ := strconv.Atoi(s[1:])
			if _, ok := shown[n]; !ok {
				return &eng.Fail{Sig: "pty register missing", What: fmt.Sprintf("%s: register %s is known to the emulator but not on the screen: %q", what, s, regScreen), Case: c}
			}
		}
	}
	// memory bytes shown = written bytes, else image / supplied bytes
	seen := map[uint64]bool{}
	for _, mm := range reMemRow.FindAllStringSubmatch(memScreen, -1) {
		base, _ := strconv.ParseUint(mm[1], 16, 64)
		for i, cell := range strings.Fields(mm[2]) {
			if cell == ".." || i > 15 {
				continue
			}
			b, err := strconv.ParseUint(cell, 16, 8)
			if err != nil {
				continue
			}
			a := base + uint64(i)
			seen[a] = true
			exp, ok := m.Ref.Stores[a]
			if !ok {
				if exp, ok = image[a]; !ok {
					exp, ok = supplied[a]
				}
			}
			if !ok {
				return &eng.Fail{Sig: "pty memory byte unexplained", What: fmt.Sprintf("%s: the memory view shows a byte at %#x which was neither in the image, nor supplied, nor written", what, a), Case: c}
			}
			if byte(b) != exp {
				return &eng.Fail{Sig: "pty memory value", What: fmt.Sprintf("%s: the memory view shows %#02x at %#x, expected %#02x", what, b, a, exp), Case: c}
			}
		}
	}
	for a := range m.Ref.Stores {
		if !seen[a] {
			return &eng.Fail{Sig: "pty memory missing", What: fmt.Sprintf("%s: byte %#x written by the program is not in the memory view: %q", what, a, memScreen), Case: c}
		}
	}
	return nil
}

func tail(s string, n int) string {
	if len(s) > n {
		return s[len(s)-n:]
	}
	return s
}

// c03PTYCases: programs chosen to tell memory layerings apart.
func c03PTYCases(quick bool) []c03Case {
	in := emu.Init{X: map[int]uint64{5: c03Data, 6: c03Base}, Seed: 1, Small: true}
	progs := [][]uint32{
		{prog.Addi(1, 0, 5), prog.Sd(1, 5, 0), prog.Ld(7, 5, 0)},                          // store, load back
		{prog.Ld(7, 6, 0), prog.Addi(1, 0, 9), prog.Sd(1, 6, 0), prog.Ld(8, 6, 0)},        // image read, store over the image, read back
		{prog.Ld(7, 5, 0), prog.Addi(1, 0, 3), prog.Sb(1, 5, 3), prog.Ld(8, 5, 0)},        // supplied memory, partial overwrite
		{prog.Lw(7, 6, 4), prog.Addi(1, 7, 1), prog.Sw(1, 5, 4), prog.Lh(9, 5, 6)},        // image word, arithmetic, store, narrow load inside
		{prog.Addi(1, 0, -1), prog.Sd(1, 5, 8), prog.Sb(0, 5, 10), prog.Ld(7, 5, 8)},      // x0 store inside a wider one
		{prog.Lbu(7, 5, 1), prog.Lbu(8, 5, 1), prog.Add(9, 7, 8), prog.Sd(9, 5, 16)},      // one supplied byte read twice
		{prog.Jal(1, 8), prog.Addi(2, 0, 1), prog.Addi(3, 0, 2), prog.Sd(1, 5, 0)},        // jump over an instruction
		{prog.Addi(1, 0, 7), prog.Mul(2, 1, 1), prog.Sd(2, 5, 24), prog.AmoaddW(3, 5, 1)}, // M and A extensions
	}
	var out []c03Case
	for i, ws := range progs {
		for _, re := range []bool{false, true} {
			if quick && re && i%2 == 1 {
				continue
			}
			c := c03Case{Words: ws, Init: in, Steps: len(ws), Entry: c03Base, PTY: true, Reenter: re}
			for _, w := range ws {
				c.Text = append(c.Text, prog.Dis(w))
			}
			out = append(out, c)
		}
	}
	return out
}
