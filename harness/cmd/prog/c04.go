package main

import (
	"encoding/json"
	"fmt"
	"strings"

	"mltwist/pkg/expr"
	"mltwist/verifh/emu"
	"mltwist/verifh/eng"
	"mltwist/verifh/prog"
)

// C04 — the provider is asked for unknown state only, once.

type c04Monitor struct {
	seenReq  int
	knownReg map[expr.Key]bool
	knownMem map[uint64]bool
	asked    map[expr.Key]bool
	askedMem map[uint64]bool
	init     bool
	askedNow bool // the step just executed asked the provider for memory
}

func (mo *c04Monitor) check(m *emu.Machine) *eng.Fail {
	if !mo.init {
		mo.init = true
		mo.knownReg, mo.knownMem = map[expr.Key]bool{}, map[uint64]bool{}
		mo.asked, mo.askedMem = map[expr.Key]bool{}, map[uint64]bool{}
		for k := range m.KnownReg {
			mo.knownReg[k] = true
		}
		for a := range m.KnownMem {
			mo.knownMem[a] = true
		}
		for _, s := range m.Segs {
			for i := 0; i < 4*len(s.Words); i++ {
				mo.knownMem[s.Base+uint64(i)] = true
			}
		}
	}
	mo.askedNow = false
	for _, rq := range m.Prov.Reqs[mo.seenReq:] {
		if rq.Mem {
			mo.askedNow = true
		}
		if !rq.Mem {
			if mo.asked[rq.Reg] {
				return &eng.Fail{Sig: "register asked twice", What: fmt.Sprintf("step %d: provider asked again for register %s", rq.Step, rq.Reg)}
			}
			if mo.knownReg[rq.Reg] {
				return &eng.Fail{Sig: "known register asked", What: fmt.Sprintf("step %d: provider asked for register %s which was preset or written earlier", rq.Step, rq.Reg)}
			}
			if rq.Reg == expr.IPKey {
				return &eng.Fail{Sig: "ip asked", What: "provider asked for the instruction pointer"}
			}
			mo.asked[rq.Reg] = true
			mo.knownReg[rq.Reg] = true
			continue
		}
		if rq.W <= 0 {
			return &eng.Fail{Sig: "empty memory request", What: fmt.Sprintf("step %d: provider asked for %d bytes at %#x", rq.Step, rq.W, rq.Addr)}
		}
		for i := 0; i < rq.W; i++ {
			a := rq.Addr + uint64(i)
			if mo.askedMem[a] {
				return &eng.Fail{Sig: "memory byte asked twice", What: fmt.Sprintf("step %d: provider asked again for byte %#x (request [%#x,+%d))", rq.Step, a, rq.Addr, rq.W)}
			}
			if mo.knownMem[a] {
				return &eng.Fail{Sig: "known memory byte asked", What: fmt.Sprintf("step %d: provider asked for byte %#x (request [%#x,+%d)) which is in the image, preset, written or supplied", rq.Step, a, rq.Addr, rq.W)}
			}
			mo.askedMem[a] = true
			mo.knownMem[a] = true
		}
	}
	mo.seenReq = len(m.Prov.Reqs)
	for _, k := range m.LastRegWrites {
		mo.knownReg[k] = true
	}
	for a := range m.Ref.Stores {
		mo.knownMem[a] = true
	}
	return nil
}

// c04Filter keeps the monitor's own failures and turns a read that observes a value different
// from the one the provider supplied (third clause of the property) into a C04 failure; every
// other emulation mismatch is C03's business.
func c04Filter(f *eng.Fail, mo *c04Monitor) *eng.Fail {
	if f == nil {
		return nil
	}
	if !strings.HasPrefix(f.Sig, "emulation") {
		return f
	}
	d, ok := f.Observed.(*emu.Diff)
	if !ok || d == nil || !mo.init {
		return nil
	}
	switch d.Class {
	case "report memload-value":
		for i := 0; i < d.ReadW; i++ {
			if mo.askedMem[d.ReadAddr+uint64(i)] {
				return &eng.Fail{Sig: "supplied memory value not observed", What: "a later read does not observe the bytes the provider supplied: " + f.What, Case: f.Case}
			}
		}
	case "report regload-value":
		if mo.asked[d.ReadReg] {
			return &eng.Fail{Sig: "supplied register value not observed", What: "a later read does not observe the register value the provider supplied: " + f.What, Case: f.Case}
		}
	case "report memload-extra", "report memload-missing", "register", "memory":
		// a step that asked the provider and then reports / computes something else than the
		// combination of what was known and what was supplied
		if mo.askedNow {
			return &eng.Fail{Sig: "read combining known and supplied state is wrong", What: "the step that asked the provider does not observe known and supplied bytes together: " + f.What, Case: f.Case}
		}
	}
	return nil
}

func init() {
	checks["C04"] = eng.Check{
		Hist:        true,
		Rule:        "the C03 program space (every program of <=3, thorough 4, instructions over the 36-word alphabet x 4 initial states incl. pre-loaded registers and memory) x <=8 steps with an instrumented state provider; a monitor checks every request: a register only if never preset, written or supplied, at most once; a memory range only if none of its bytes is in the image, preset, written or supplied and no byte twice; a read whose reported value differs from the reference machine (memory = image + provider bytes + program writes) and which covers a supplied byte / register is reported as 'supplied value not observed'; a step that asked the provider for memory and then reports or computes something else than known and supplied bytes together is reported too. Plus every program of <=3 SYNTHETIC instructions over a 17-instruction alphabet (loads of 2..255 bytes spanning the image, a gap, a second image block and unknown memory; constant stores over the image, into the gap and across the image start; a register-valued store; a memory-to-memory copy; a register + memory sum) run through the real emulator over Overlay(Bytes(image), Sparse) with a recording provider: every request only for bytes / registers never known and at most once; every value stored or written equals the effects evaluated over image + supplied + written bytes. Non-trivial = run with at least one provider request.",
		Assumptions: []string{"runs stop at the first state mismatch (reported by C03), so requests after a mismatch are not judged"},
		Run: func(r *eng.Run) {
			c03Enumerate(r, func(c c03Case) {
				mo := &c04Monitor{}
				var reqs int
				f, steps, skipped := c03Run(c, func(m *emu.Machine) *eng.Fail {
					reqs = len(m.Prov.Reqs)
					return mo.check(m)
				})
				r.Eval(1)
				if skipped != "" {
					return
				}
				r.State(1)
				r.Trace(1)
				r.Trans(steps)
				if reqs > 0 {
					r.Nontrivial(1)
				}
				f = c04Filter(f, mo)
				if f != nil {
					r.Report(f)
					r.Outcome(f.Sig)
				} else {
					r.Outcome(fmt.Sprint("requests=", reqs))
				}
			})
			// synthetic programs (loads and stores of up to 255 bytes across image, unknown memory,
			// supplied bytes and program writes): every program of <=3 instructions of the alphabet
			na := len(c04SynAlphabet())
			r.Par(na, func(i int) {
				var rec func(seq []int)
				rec = func(seq []int) {
					f, asks := c04SynRun(c04SynCase{Syn: seq})
					r.Eval(1)
					r.State(1)
					r.Trace(1)
					r.Trans(len(seq))
					if asks > 0 {
						r.Nontrivial(1)
					}
					if f != nil {
						r.Report(f)
						r.Outcome(f.Sig)
					}
					if len(seq) < 3 {
						for k := 0; k < na; k++ {
							rec(append(seq[:len(seq):len(seq)], k))
						}
					}
				}
				rec([]int{i})
			})
			r.Sample(c03Case{Words: []uint32{prog.Sh(3, 5, 2), prog.Ld(7, 5, 0)}, Text: []string{"sh x3,2(x5)", "ld x7,0(x5)"}, Init: c03Inits[2], Steps: 8, Entry: c03Base})
		},
		Replay: func(r *eng.Run, raw json.RawMessage) *eng.Fail {
			var sc c04SynCase
			if err := json.Unmarshal(raw, &sc); err == nil && len(sc.Syn) > 0 {
				f, _ := c04SynRun(sc)
				return f
			}
			var c c03Case
			if err := json.Unmarshal(raw, &c); err != nil {
				panic(err)
			}
			mo := &c04Monitor{}
			f, _, _ := c03Run(c, mo.check)
			return c04Filter(f, mo)
		},
	}
}
