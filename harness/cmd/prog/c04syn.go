package main

import (
	"fmt"
	"math/big"

	"mltwist/internal/deps"
	"mltwist/internal/emulator"
	"mltwist/internal/parser"
	"mltwist/internal/state"
	"mltwist/internal/state/memory"
	"mltwist/pkg/expr"
	"mltwist/pkg/model"
	"mltwist/verifh/eng"
	"mltwist/verifh/ir"
)

// C04 on programs no RISC-V front end produces: the emulator, its state and the layered
// memory are generic (expression widths go up to 255 bytes), so the property is also decided
// on synthetic instructions whose loads and stores are up to 72 bytes wide and span the
// image, unknown memory, supplied bytes and program writes.

type c04SynCase struct {
	Syn  []int    `json:"synthetic_program"` // indices into c04SynAlphabet
	Text []string `json:"text,omitempty"`
}

type c04SynIns struct {
	name string
	effs []expr.Effect
}

const c04SynMem = expr.Key("mem")

func c04SynAlphabet() []c04SynIns {
	ld := func(reg string, a uint64, w int) c04SynIns {
		return c04SynIns{fmt.Sprintf("%s:=mem[%#x,+%d)", reg, a, w),
			[]expr.Effect{expr.NewRegStore(expr.NewMemLoad(c04SynMem, expr.ConstFromUint(a), expr.Width(w)), expr.Key(reg), expr.Width(w))}}
	}
	stc := func(a uint64, w int, seed byte) c04SynIns {
		bs := make([]byte, w)
		for i := range bs {
			bs[i] = seed + byte(i)
		}
		return c04SynIns{fmt.Sprintf("mem[%#x,+%d):=const %02x..", a, w, seed),
			[]expr.Effect{expr.NewMemStore(expr.NewConst(bs, expr.Width(w)), c04SynMem, expr.ConstFromUint(a), expr.Width(w))}}
	}
	return []c04SynIns{
		ld("a", 0x1000, 48),  // 40 image bytes + 8 unknown
		ld("b", 0x0ff8, 48),  // 8 unknown + 40 image bytes
		ld("c", 0x1000, 64),  // image, gap, image
		ld("d", 0x1020, 40),  // 8 image, 24 unknown, 8 image
		ld("e", 0x1008, 33),  // inside the image, one byte beyond
		ld("f", 0x1027, 2),   // last image byte + first unknown byte
		ld("g", 0x1028, 8),   // unknown only
		ld("h", 0x1000, 8),   // image only
		ld("i", 0x0ff0, 72),  // 16 unknown, 40 image, 16 unknown
		ld("j", 0x1030, 255), // gap, second image block, far beyond
		stc(0x1020, 8, 0xc0), // over the image at offset 32
		stc(0x1030, 4, 0xd0), // into the gap
		stc(0x0ffc, 8, 0xe0), // across the image start
		stc(0x1010, 40, 0x50),
		// a register-valued store (the register is asked for) and a copy from memory to memory
		{"mem[0x1034,+8):=s", []expr.Effect{expr.NewMemStore(expr.NewRegLoad("s", 8), c04SynMem, expr.ConstFromUint[uint64](0x1034), 8)}},
		{"mem[0x1048,+40):=mem[0x1000,+40)", []expr.Effect{expr.NewMemStore(expr.NewMemLoad(c04SynMem, expr.ConstFromUint[uint64](0x1000), 40), c04SynMem, expr.ConstFromUint[uint64](0x1048), 40)}},
		{"k:=s+mem[0x102c,+4)", []expr.Effect{expr.NewRegStore(expr.NewBinary(expr.Add, expr.NewRegLoad("s", 8), expr.NewMemLoad(c04SynMem, expr.ConstFromUint[uint64](0x102c), 4), 8), "k", 8)}},
	}
}

type c04SynProv struct {
	memAsks [][2]uint64
	regAsks []expr.Key
}

func c04SynByte(a uint64) byte { return byte(a*7+3) ^ byte(a>>8) }

func c04SynReg(k expr.Key) uint64 {
	v := uint64(0x9e3779b97f4a7c15)
	for _, ch := range []byte(k) {
		v = v*131 + uint64(ch)
	}
	return v
}

func (p *c04SynProv) Register(key expr.Key, w expr.Width) expr.Const {
	p.regAsks = append(p.regAsks, key)
	return ir.ConstU(c04SynReg(key), 8).WithWidth(w)
}

func (p *c04SynProv) Memory(_ expr.Key, addr model.Addr, w expr.Width) expr.Const {
	p.memAsks = append(p.memAsks, [2]uint64{uint64(addr), uint64(w)})
	bs := make([]byte, w)
	for i := range bs {
		bs[i] = c04SynByte(uint64(addr) + uint64(i))
	}
	return expr.NewConst(bs, w)
}

type c04SynBlock struct {
	begin model.Addr
	bytes []byte
}

func (b c04SynBlock) Begin() model.Addr { return b.begin }
func (b c04SynBlock) Bytes() []byte     { return b.bytes }

func c04SynRun(c c04SynCase) (f *eng.Fail, asks int) {
	al := c04SynAlphabet()
	var pins []parser.Instruction
	for i, k := range c.Syn {
		pins = append(pins, parser.Instruction{Addr: model.Addr(0x100 + 4*i), Bytes: make([]byte, 4), Effects: al[k].effs, Details: synDetails{al[k].name}})
		c.Text = append(c.Text, al[k].name)
	}
	fail := func(sig, what string) *eng.Fail { return &eng.Fail{Sig: sig, What: what, Case: c} }
	code, err := deps.NewCode(0x100, pins)
	if err != nil {
		return nil, 0
	}
	// image: 40 bytes at 0x1000, 8 bytes at 0x1040
	known := map[uint64]byte{}
	img1, img2 := make([]byte, 40), make([]byte, 8)
	for i := range img1 {
		img1[i] = 0x10 + byte(i)
		known[0x1000+uint64(i)] = img1[i]
	}
	for i := range img2 {
		img2[i] = 0x90 + byte(i)
		known[0x1040+uint64(i)] = img2[i]
	}
	bm, err := memory.NewBytes([]memory.ByteBlock{c04SynBlock{0x1000, img1}, c04SynBlock{0x1040, img2}})
	if err != nil {
		return nil, 0
	}
	st := &state.State{Regs: state.NewRegMap(), Mems: memory.MemMap{c04SynMem: memory.NewOverlay(bm, memory.NewSparse())}}
	prov := &c04SynProv{}
	var em *emulator.Emulator
	if p, stack := eng.Catch(func() { em = emulator.New(code, 0x100, prov, st) }); p != nil {
		return fail("synthetic emulation panic "+eng.PanicSite(stack), fmt.Sprintf("emulator.New panics: %v", p)), 0
	}
	regs := map[expr.Key]*big.Int{}
	everAskedMem := map[uint64]bool{}
	everAskedReg := map[expr.Key]bool{}
	for si, k := range c.Syn {
		nm, nr := len(prov.memAsks), len(prov.regAsks)
		var rep *emulator.Step
		var serr error
		if p, stack := eng.Catch(func() { rep, serr = em.Step() }); p != nil {
			return fail("synthetic emulation panic "+eng.PanicSite(stack), fmt.Sprintf("step %d (%s) panics: %v", si, al[k].name, p)), len(prov.memAsks) + len(prov.regAsks)
		}
		if serr != nil {
			return fail("synthetic emulation step-error", fmt.Sprintf("step %d (%s) fails: %v", si, al[k].name, serr)), len(prov.memAsks) + len(prov.regAsks)
		}
		// the requests of this step
		for _, rq := range prov.memAsks[nm:] {
			for i := uint64(0); i < rq[1]; i++ {
				a := rq[0] + i
				if everAskedMem[a] {
					return fail("memory byte asked twice (synthetic program)", fmt.Sprintf("step %d (%s): provider asked again for byte %#x (request [%#x,+%d))", si, al[k].name, a, rq[0], rq[1])), 0
				}
				if _, ok := known[a]; ok {
					return fail("known memory byte asked (synthetic program)", fmt.Sprintf("step %d (%s): provider asked for byte %#x (request [%#x,+%d)), which is in the image, written or supplied", si, al[k].name, a, rq[0], rq[1])), 0
				}
				everAskedMem[a] = true
			}
		}
		for _, rq := range prov.memAsks[nm:] {
			for i := uint64(0); i < rq[1]; i++ {
				known[rq[0]+i] = c04SynByte(rq[0] + i)
			}
		}
		for _, rk := range prov.regAsks[nr:] {
			if everAskedReg[rk] {
				return fail("register asked twice (synthetic program)", fmt.Sprintf("step %d (%s): provider asked again for register %s", si, al[k].name, rk)), 0
			}
			if _, ok := regs[rk]; ok {
				return fail("known register asked (synthetic program)", fmt.Sprintf("step %d (%s): provider asked for register %s, which was written or supplied", si, al[k].name, rk)), 0
			}
			everAskedReg[rk] = true
			regs[rk] = new(big.Int).SetUint64(c04SynReg(rk))
		}
		// what the instruction must compute: effects evaluated in the pre-state, where memory is
		// image + supplied + written and anything else is what the provider supplies
		env := &ir.Env{
			Reg: func(rk expr.Key) *big.Int {
				if v, ok := regs[rk]; ok {
					return v
				}
				return new(big.Int).SetUint64(c04SynReg(rk))
			},
			Mem: func(_ expr.Key, a *big.Int) byte {
				if b, ok := known[a.Uint64()]; ok {
					return b
				}
				return c04SynByte(a.Uint64())
			},
		}
		type wr struct {
			mem  bool
			key  expr.Key
			addr uint64
			val  *big.Int
			w    expr.Width
		}
		var wrs []wr
		for _, ef := range al[k].effs {
			switch x := ef.(type) {
			case expr.RegStore:
				wrs = append(wrs, wr{key: x.Key(), val: ir.Adjust(ir.Eval(x.Value(), env), x.Width()), w: x.Width()})
			case expr.MemStore:
				wrs = append(wrs, wr{mem: true, addr: ir.Eval(x.Addr(), env).Uint64(), val: ir.Adjust(ir.Eval(x.Value(), env), x.Width()), w: x.Width()})
			}
		}
		for _, w := range wrs {
			if w.mem {
				found := false
				for _, ms := range rep.MemStores {
					if uint64(ms.Addr) == w.addr && ms.Value.Width() == w.w {
						found = true
						if got := ir.ConstVal(ms.Value); got.Cmp(w.val) != 0 {
							return fail("supplied value not observed (synthetic program)", fmt.Sprintf("step %d (%s): stores %x to [%#x,+%d); image, supplied and written bytes give %x", si, al[k].name, got, w.addr, w.w, w.val)), 0
						}
					}
				}
				if !found {
					return fail("synthetic emulation report", fmt.Sprintf("step %d (%s): store to [%#x,+%d) not reported", si, al[k].name, w.addr, w.w)), 0
				}
				for i := 0; i < int(w.w); i++ {
					known[w.addr+uint64(i)] = byte(new(big.Int).Rsh(w.val, uint(i)*8).Uint64())
				}
				continue
			}
			got, ok := rep.RegStores[w.key]
			if !ok {
				return fail("synthetic emulation report", fmt.Sprintf("step %d (%s): write of register %s not reported", si, al[k].name, w.key)), 0
			}
			if g := ir.ConstVal(got); g.Cmp(w.val) != 0 {
				return fail("supplied value not observed (synthetic program)", fmt.Sprintf("step %d (%s): register %s := %x; image, supplied and written bytes give %x", si, al[k].name, w.key, g, w.val)), 0
			}
			regs[w.key] = w.val
		}
		// the state afterwards: what was written and what was supplied is readable without the provider
		for _, w := range wrs {
			if w.mem {
				continue
			}
			if ex, ok := st.Regs.Load(w.key, w.w); !ok {
				return fail("synthetic emulation state", fmt.Sprintf("after step %d (%s) register %s is unknown to the state", si, al[k].name, w.key)), 0
			} else if kc, isC := ex.(expr.Const); isC && ir.ConstVal(kc).Cmp(w.val) != 0 {
				return fail("supplied value not observed (synthetic program)", fmt.Sprintf("after step %d (%s) the state holds %s = %x, expected %x", si, al[k].name, w.key, ir.ConstVal(kc), w.val)), 0
			}
		}
	}
	return nil, len(prov.memAsks) + len(prov.regAsks)
}
