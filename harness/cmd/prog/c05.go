package main

import (
	"encoding/json"
	"fmt"

	"mltwist/internal/deps"
	"mltwist/verifh/emu"
	"mltwist/verifh/eng"
	"mltwist/verifh/prog"
)

// C05 — accepted instruction reorderings preserve block behaviour.

type c05Case struct {
	Syn   []int      `json:"synthetic,omitempty"`
	Segs  []prog.Seg `json:"segments"`
	Entry uint64     `json:"entry"`
	Text  []string   `json:"text,omitempty"`
	Path  []c07Op    `json:"moves"`
	Init  int        `json:"init"`
	Block int        `json:"block"`
}

var c05Inits = []emu.Init{
	// x2 = data base (sd/ld/amo alias on it), full 64-bit values
	{X: map[int]uint64{2: 0x8000, 1: 0x11, 3: 0xffffffff00000007}, Seed: 11},
	{X: map[int]uint64{2: 0x8004, 1: 0x8000, 3: 2}, Seed: 12},
	{X: map[int]uint64{2: 0x9000, 1: 0, 3: 0x8000}, Seed: 13},
}

func c05Image(segs []prog.Seg) map[uint64]byte {
	img := map[uint64]byte{}
	for _, s := range segs {
		for i, b := range prog.Image(s.Words) {
			img[s.Base+uint64(i)] = b
		}
	}
	return img
}

// runOrder builds the code, applies the moves and runs block bi from its begin.
func c05RunOrder(s *c07Sys, path []c07Op, bi int, init int) (*emu.Outcome, error) {
	code, _, err := s.build(path)
	if err != nil {
		return nil, err
	}
	// block bi by original position: find by begin address of the original bi-th block
	orig, _, _ := s.build(nil)
	begin := orig.Index(bi).Begin()
	b, ok := code.Address(begin)
	if !ok {
		return nil, fmt.Errorf("block lost")
	}
	in := c05Inits[init]
	return emu.RunBlock(code, s.segs, uint64(b.Begin()), uint64(b.Begin()), uint64(b.End()), &in, 3*b.Num()+3), nil
}

func c05Text(s *c07Sys) []string {
	var txt []string
	for _, sg := range s.segs {
		for _, w := range sg.Words {
			txt = append(txt, prog.Dis(w))
		}
	}
	return txt
}

// c05Explore enumerates all orders reachable through accepted instruction
// moves in block bi and compares every order with the original.
func c05Explore(r *eng.Run, s *c07Sys, bi int) *eng.Fail { return c05ExplorePre(r, s, bi, nil) }

// c05ExplorePre: the same search started after the block moves pre; bi is the block's ORIGINAL
// position, the runs are compared with the original order on the unmoved code.
func c05ExplorePre(r *eng.Run, s *c07Sys, bi int, pre []c07Op) *eng.Fail {
	base := make([]*emu.Outcome, len(c05Inits))
	for i := range c05Inits {
		o, err := c05RunOrder(s, nil, bi, i)
		if err != nil {
			return nil
		}
		base[i] = o
	}
	img := c05Image(s.segs)
	c0, m0, err := s.build(nil)
	if err != nil {
		return nil
	}
	_ = c0
	origBegin := m0.begins[bi]
	ci := bi // current position of the block
	if len(pre) > 0 {
		_, mp, err := s.build(pre)
		if err != nil {
			return nil // a refused block move: nothing to explore
		}
		for i, b := range mp.begins {
			if b == origBegin {
				ci = i
			}
		}
		m0 = mp
	}
	seen := map[string]bool{m0.key(): true}
	queue := [][]c07Op{append([]c07Op{}, pre...)}
	r.State(1)
	for len(queue) > 0 {
		path := queue[0]
		queue = queue[1:]
		c, m, err := s.build(path)
		if err != nil {
			return &eng.Fail{Sig: "replay diverged", What: err.Error(), Case: c05Case{Segs: s.segs, Entry: s.entry, Path: path}}
		}
		n := len(m.blocks[ci])
		for f := 0; f < n; f++ {
			for t := 0; t < n; t++ {
				if f == t {
					continue
				}
				if err := c.Index(ci).Move(f, t); err != nil {
					continue
				}
				r.Trans(1)
				op := c07Op{Kind: "ins", Block: ci, From: f, To: t}
				np := append(append([]c07Op{}, path...), op)
				mm := m.clone()
				rotate(mm.blocks[ci], f, t)
				k := mm.key()
				if !seen[k] {
					seen[k] = true
					r.State(1)
					queue = append(queue, np)
					for i := range c05Inits {
						o, err := c05RunOrder(s, np, bi, i)
						r.Trace(1)
						if err != nil {
							return &eng.Fail{Sig: "replay diverged", What: err.Error(), Case: c05Case{Segs: s.segs, Entry: s.entry, Path: np}}
						}
						if d := emu.Differ(base[i], o, &c05Inits[i], img); d != "" {
							cls := "state"
							switch {
							case len(d) > 11 && d[:11] == "termination":
								cls = "termination"
							case len(d) > 7 && d[:7] == "control":
								cls = "control-transfer"
							}
							return &eng.Fail{Sig: "reordered block " + cls, What: fmt.Sprintf("original order vs order after moves %v from initial state %d: %s", np, i, d),
								Case: c05Case{Syn: s.syn, Segs: s.segs, Entry: s.entry, Text: c05TextOf(s), Path: np, Init: i, Block: bi}}
						}
					}
				}
				c, m, err = s.build(path)
				if err != nil {
					return nil
				}
			}
		}
	}
	r.Outcome(fmt.Sprintf("orders=%d", len(seen)))
	if len(seen) > 1 {
		r.Nontrivial(1)
	}
	return nil
}

// c05BlockMoves: block moves never change an instruction's address, text or single-step behaviour.
func c05BlockMoves(r *eng.Run, s *c07Sys) *eng.Fail {
	c0, _, err := s.build(nil)
	if err != nil || c0.Len() < 2 {
		return nil
	}
	type insObs struct {
		addr uint64
		text string
		out  []*emu.Outcome
	}
	observe := func(c *deps.Code) map[uint64]insObs {
		obs := map[uint64]insObs{}
		for _, b := range c.Blocks() {
			for _, in := range b.Instructions() {
				o := insObs{addr: uint64(in.Begin()), text: in.String()}
				for i := range c05Inits {
					ini := c05Inits[i]
					// one step: horizon 1 over the whole address space
					o.out = append(o.out, emu.RunBlock(c, s.segs, uint64(in.Begin()), 0, ^uint64(0), &ini, 1))
				}
				obs[uint64(in.OrigAddr())] = o
			}
		}
		return obs
	}
	ref := observe(c0)
	img := c05Image(s.segs)
	n := c0.Len()
	for f := 0; f < n; f++ {
		for t := 0; t < n; t++ {
			for f2 := 0; f2 < n; f2++ {
				path := []c07Op{{Kind: "block", From: f, To: t}, {Kind: "block", From: f2, To: (f2 + 1) % n}}
				c, _, err := s.build(path)
				if err != nil {
					continue
				}
				r.Trans(2)
				got := observe(c)
				for oa, o := range ref {
					g := got[oa]
					if g.addr != o.addr || g.text != o.text {
						return &eng.Fail{Sig: "block move changes instruction", What: fmt.Sprintf("after block moves %v instruction %#x is at %#x %q (was %#x %q)", path, oa, g.addr, g.text, o.addr, o.text),
							Case: c05Case{Segs: s.segs, Entry: s.entry, Path: path}}
					}
					for i := range o.out {
						g.out[i].Err, o.out[i].Err = "", "" // horizon marker irrelevant for a single step
						if d := emu.Differ(o.out[i], g.out[i], &c05Inits[i], img); d != "" {
							return &eng.Fail{Sig: "block move changes behaviour", What: fmt.Sprintf("after block moves %v single-stepping instruction %#x differs: %s", path, oa, d),
								Case: c05Case{Segs: s.segs, Entry: s.entry, Path: path, Init: i}}
						}
					}
				}
			}
		}
	}
	return nil
}

func c05Codes(r *eng.Run) []*c07Sys {
	// besides the dependency alphabet: a third writer of x1 and a load/store pair on the
	// same address which shares no written register (only memory orders them)
	alpha := append(depAlphabet(), prog.Addi(1, 0, 3), prog.Ld(8, 2, 0), prog.Sd(3, 2, 0), prog.Sb(3, 2, 1), prog.Jal(1, 4))
	terms := []uint32{0, prog.Beq(1, 3, 8), prog.Jal(0, 8)}
	maxLen := 3
	if !r.Quick() {
		maxLen = 4
	}
	var out []*c07Sys
	var rec func(ws []uint32)
	rec = func(ws []uint32) {
		if len(ws) > 0 {
			for _, t := range terms {
				w2 := append([]uint32{}, ws...)
				if t != 0 {
					if len(ws) == maxLen {
						continue
					}
					// landing pad after the terminator so that its forward target exists
					// (the pad lies in other blocks: a block ends after a real jump)
					w2 = append(w2, t, prog.Nop, prog.Nop, prog.Nop)
				}
				if s, err := newC07Sys([]prog.Seg{{Base: 0x1000, Words: w2}}, 0x1000); err == nil {
					out = append(out, s)
				}
			}
		}
		if len(ws) < maxLen {
			for _, w := range alpha {
				rec(append(ws[:len(ws):len(ws)], w))
			}
		}
	}
	rec(nil)
	// absolute addressing (constant addresses, near and far apart): every block of 2..4
	// instructions over stores and loads at 16(x0), 17(x0), 18(x0) and 512(x0)
	abs := []uint32{prog.Sw(3, 0, 16), prog.Sw(1, 0, 512), prog.Lw(7, 0, 16), prog.Sw(3, 0, 18), prog.Lw(8, 0, 512), prog.Addi(3, 3, 1), prog.Sb(1, 0, 17)}
	var recAbs func(ws []uint32)
	recAbs = func(ws []uint32) {
		if len(ws) >= 2 {
			if s, err := newC07Sys([]prog.Seg{{Base: 0x1000, Words: append([]uint32{}, ws...)}}, 0x1000); err == nil {
				out = append(out, s)
			}
		}
		if len(ws) < 4 {
			for _, w := range abs {
				recAbs(append(ws[:len(ws):len(ws)], w))
			}
		}
	}
	recAbs(nil)
	// jumps that do not leave their own instruction or block: j . (jal x0,0), a conditional
	// and a linking self-jump, and a jump back to the previous instruction, at every
	// position of blocks of 2..3 instructions (a self-jump is a real jump: the block ends
	// after it and starts before it)
	self := []uint32{prog.Addi(1, 0, 5), prog.Addi(2, 1, 7), prog.Jal(0, 0), prog.Beq(1, 3, 0), prog.Jal(5, 0), prog.Jal(0, -4), prog.Beq(1, 1, -4)}
	var recSelf func(ws []uint32)
	recSelf = func(ws []uint32) {
		if len(ws) >= 2 {
			if s, err := newC07Sys([]prog.Seg{{Base: 0x1000, Words: append([]uint32{}, ws...)}}, 0x1000); err == nil {
				out = append(out, s)
			}
		}
		if len(ws) < 3 {
			for _, w := range self {
				recSelf(append(ws[:len(ws):len(ws)], w))
			}
		}
	}
	recSelf(nil)
	// synthetic blocks: multi-store / multi-write / multi-space instructions (alphabet of C06),
	// every sequence of 2 and (quick: a third of) 3
	na := len(synAlphabet())
	for i := 0; i < na; i++ {
		for j := 0; j < na; j++ {
			for k := -1; k < na; k++ {
				seq := []int{i, j}
				if k >= 0 {
					if r.Quick() && (i+2*j+k)%3 != 0 {
						continue
					}
					seq = append(seq, k)
				}
				if s, err := newC07SysSyn(seq); err == nil {
					out = append(out, s)
				}
			}
		}
	}
	return out
}

func init() {
	checks["C05"] = eng.Check{
		Hist:        true,
		Rule:        "every block of <=3 (thorough 4) instructions over a 19-word alphabet chosen around the dependency rules (three writers of x1, reader, read-modify-write, a link-register write by the pseudo-jump jal x1,+4, sd/ld on one base with and without a shared register, a partially overlapping sb, fence, ecall, csrrw, amoadd.w, the pseudo-jumps jal x5,+4 and beq x0,x0,+4, auipc), optionally ended by a real terminating beq/jal, followed by nops, every block of 2..3 instructions over 7 words with jumps that stay inside their own instruction or block (j ., beq x1,x3,+0, jal x5,+0, j -4, beq x1,x1,-4), every block of 2..4 instructions over 7 words with ABSOLUTE addresses (stores and loads at 16(x0), 17(x0), 18(x0) and 512(x0): constant addresses near and far apart), and every block of 2 (quick: a third of those of 3) SYNTHETIC instructions from the C06 alphabet (several stores into one / two spaces, several register writes, load+store of one space; synthetic registers hold one of three nearby addresses so that accesses alias in some initial states): explicit-state search over ALL orders reachable through accepted Block.Move calls (state = order; successor = fresh real code + replay + move); every reachable order is run in the real emulator from 3 initial states (aliasing and non-aliasing addresses, all registers preloaded) until pc leaves the block or a horizon, and compared (registers, writable-memory bytes, final pc, termination) with the run of the original order. A second pass walks ONE long-lived instance through a depth-2 (thorough 3) tour of accepted, rejected and undo moves and runs the emulator comparison in every node. Block moves on the 4 multi-block codes of C07: every pair of Code.Move calls leaves each instruction's address, text and single-step behaviour unchanged, and after every one or two block moves the order search of every block is repeated (instruction moves after block moves). Non-trivial = block with more than one reachable order.",
		Assumptions: []string{"differential oracle: original order vs reordered order on the same emulator", "all registers are preloaded so the known narrow-first-read finding of C03 cannot influence the comparison"},
		Run: func(r *eng.Run) {
			codes := c05Codes(r)
			r.Note("blocks=%d", len(codes))
			r.Par(len(codes), func(i int) {
				f := c05Explore(r, codes[i], 0)
				r.Eval(1)
				if f != nil {
					r.Report(f)
					r.Outcome(f.Sig)
					return
				}
				// second pass on ONE long-lived instance (hidden state accumulated over the
				// history of accepted, rejected and undo moves is carried along): every node
				// of a depth-2 (thorough 3) tour is run in the emulator and compared.
				s := codes[i]
				img := c05Image(s.segs)
				var base []*emu.Outcome
				for k := range c05Inits {
					o, err := c05RunOrder(s, nil, 0, k)
					if err != nil {
						return
					}
					base = append(base, o)
				}
				depth := 2
				if !r.Quick() {
					depth = 3
				}
				f = c07Tour(r, s, depth, func(c *deps.Code, ops []c07Op) *eng.Fail {
					b := c.Index(0)
					for k := range c05Inits {
						in := c05Inits[k]
						o := emu.RunBlock(c, s.segs, uint64(b.Begin()), uint64(b.Begin()), uint64(b.End()), &in, 3*b.Num()+3)
						if d := emu.Differ(base[k], o, &c05Inits[k], img); d != "" {
							return &eng.Fail{Sig: "reordered block differs (long-lived instance)", What: fmt.Sprintf("after operations %v from initial state %d: %s", ops, k, d)}
						}
					}
					return nil
				})
				if f != nil {
					r.Report(f)
					r.Outcome(f.Sig)
				}
			})
			multi := c07Codes(r)
			for _, s := range multi[len(multi)-4:] {
				f := c05BlockMoves(r, s)
				r.Eval(1)
				if f != nil {
					r.Report(f)
				}
				// instruction moves AFTER block moves: for every block and every one or two block
				// moves before it, every order reachable through accepted moves behaves like the
				// original order
				c0, _, err := s.build(nil)
				if err != nil {
					continue
				}
				n := c0.Len()
				var pres [][]c07Op
				for f := 0; f < n; f++ {
					for t := 0; t < n; t++ {
						if f == t {
							continue
						}
						pres = append(pres, []c07Op{{Kind: "block", From: f, To: t}})
						for f2 := 0; f2 < n; f2++ {
							pres = append(pres, []c07Op{{Kind: "block", From: f, To: t}, {Kind: "block", From: f2, To: (f2 + 1) % n}})
						}
					}
				}
				for bi := 0; bi < n; bi++ {
					for _, pre := range pres {
						if f := c05ExplorePre(r, s, bi, pre); f != nil {
							r.Report(f)
							r.Outcome(f.Sig)
						}
						r.Eval(1)
					}
				}
			}
			r.Sample(c05Case{Segs: codes[len(codes)/2].segs, Entry: 0x1000, Text: c05Text(codes[len(codes)/2]), Path: []c07Op{{Kind: "ins", From: 0, To: 1}}})
		},
		Replay: func(r *eng.Run, raw json.RawMessage) *eng.Fail {
			var probe struct {
				Tour bool `json:"tour"`
			}
			json.Unmarshal(raw, &probe)
			if probe.Tour {
				var tc c07Case
				if err := json.Unmarshal(raw, &tc); err != nil {
					panic(err)
				}
				s, err := sysOfCase(tc)
				if err != nil {
					return nil
				}
				if f := c07ReplayTour(s, tc); f != nil {
					return f
				}
				// re-run the emulation comparison at the end of the operation list
				code, m, err := s.build(nil)
				if err != nil {
					return nil
				}
				for _, op := range tc.Path {
					c07Apply(code, m, op, s.lens)
				}
				img := c05Image(s.segs)
				b := code.Index(0)
				for k := range c05Inits {
					base, err := c05RunOrder(s, nil, 0, k)
					if err != nil {
						return nil
					}
					in := c05Inits[k]
					o := emu.RunBlock(code, s.segs, uint64(b.Begin()), uint64(b.Begin()), uint64(b.End()), &in, 3*b.Num()+3)
					if d := emu.Differ(base, o, &c05Inits[k], img); d != "" {
						return &eng.Fail{Sig: "reordered block differs (long-lived instance)", What: d, Case: tc}
					}
				}
				return nil
			}
			var c c05Case
			if err := json.Unmarshal(raw, &c); err != nil {
				panic(err)
			}
			s, err := sysOfCase(c07Case{Syn: c.Syn, Segs: c.Segs, Entry: c.Entry})
			if err != nil {
				return nil
			}
			onlyBlocks := len(c.Path) > 0
			for _, op := range c.Path {
				onlyBlocks = onlyBlocks && op.Kind == "block"
			}
			if onlyBlocks {
				return c05BlockMoves(r, s)
			}
			a, err1 := c05RunOrder(s, nil, c.Block, c.Init)
			b, err2 := c05RunOrder(s, c.Path, c.Block, c.Init)
			if err1 != nil || err2 != nil {
				return nil
			}
			if d := emu.Differ(a, b, &c05Inits[c.Init], c05Image(c.Segs)); d != "" {
				cls := "state"
				switch {
				case len(d) > 11 && d[:11] == "termination":
					cls = "termination"
				case len(d) > 7 && d[:7] == "control":
					cls = "control-transfer"
				}
				return &eng.Fail{Sig: "reordered block " + cls, What: d, Case: c}
			}
			return nil
		},
	}
}
