package main

import (
	"encoding/json"
	"fmt"

	"mltwist/internal/deps"
	"mltwist/internal/parser"
	"mltwist/pkg/expr"
	"mltwist/pkg/model"
	"mltwist/verifh/eng"
	"mltwist/verifh/prog"
)

// C06 — independent adjacent instructions may always be swapped.

type c06Case struct {
	Words []uint32 `json:"words"`
	Text  []string `json:"text,omitempty"`
	Pos   int      `json:"pos"` // index of the first instruction of the pair
	Dir   string   `json:"dir"` // fwd: Move(pos,pos+1), back: Move(pos+1,pos)
}

// facts about one instruction from the lifted effects (independent walker).
type insFacts struct {
	regs     map[expr.Key]bool // read or written, IP included
	memRead  map[expr.Key]bool
	memWrite map[expr.Key]bool
	typ      model.Type
}

func factsOf(addr uint64, w uint32) (*insFacts, bool) {
	in, err := prog.Parser64.Parse(model.Addr(addr), prog.Image([]uint32{w}))
	if err != nil {
		return nil, false
	}
	return factsOfEffects(in.Effects, in.Type), true
}

func factsOfEffects(effects []expr.Effect, typ model.Type) *insFacts {
	in := struct {
		Effects []expr.Effect
		Type    model.Type
	}{effects, typ}
	f := &insFacts{regs: map[expr.Key]bool{}, memRead: map[expr.Key]bool{}, memWrite: map[expr.Key]bool{}, typ: in.Type}
	var walk func(e expr.Expr)
	walk = func(e expr.Expr) {
		switch x := e.(type) {
		case expr.RegLoad:
			f.regs[x.Key()] = true
		case expr.MemLoad:
			f.memRead[x.Key()] = true
			walk(x.Addr())
		case expr.Binary:
			walk(x.Arg1())
			walk(x.Arg2())
		case expr.Less:
			walk(x.Arg1())
			walk(x.Arg2())
			walk(x.ExprTrue())
			walk(x.ExprFalse())
		}
	}
	for _, ef := range in.Effects {
		switch x := ef.(type) {
		case expr.RegStore:
			f.regs[x.Key()] = true
			walk(x.Value())
		case expr.MemStore:
			f.memWrite[x.Key()] = true
			walk(x.Addr())
			walk(x.Value())
		}
	}
	return f
}

// synthetic instructions: effect shapes the RISC-V front end never produces
// (several stores into one space, several register writes, loads from two spaces...).
type synIns struct {
	Name string
	Effs []expr.Effect
	Typ  model.Type
}

func synAlphabet() []synIns {
	r := func(k string) expr.Expr { return expr.NewRegLoad(expr.Key(k), 8) }
	c := func(v uint64) expr.Expr { return expr.ConstFromUint(v) }
	add := func(a, b expr.Expr) expr.Expr { return expr.NewBinary(expr.Add, a, b, 8) }
	rs := func(k string, v expr.Expr) expr.Effect { return expr.NewRegStore(v, expr.Key(k), 8) }
	ms := func(sp string, a, v expr.Expr) expr.Effect { return expr.NewMemStore(v, expr.Key(sp), a, 8) }
	ml := func(sp string, a expr.Expr) expr.Expr { return expr.NewMemLoad(expr.Key(sp), a, 8) }
	return []synIns{
		{"a:=1", []expr.Effect{rs("a", c(1))}, 0},
		{"b:=c+1", []expr.Effect{rs("b", add(r("c"), c(1)))}, 0},
		{"d:=d+1", []expr.Effect{rs("d", add(r("d"), c(1)))}, 0},
		{"e,f:=1,2", []expr.Effect{rs("e", c(1)), rs("f", c(2))}, 0},
		{"m1[g],m1[g+8]:=h,i", []expr.Effect{ms("m1", r("g"), r("h")), ms("m1", add(r("g"), c(8)), r("i"))}, 0},
		{"m1[j],m2[j]:=k,k", []expr.Effect{ms("m1", r("j"), r("k")), ms("m2", r("j"), r("k"))}, 0},
		{"m2[l]:=n", []expr.Effect{ms("m2", r("l"), r("n"))}, 0},
		{"o:=m1[p]+m1[p+8]", []expr.Effect{rs("o", add(ml("m1", r("p")), ml("m1", add(r("p"), c(8)))))}, 0},
		{"q:=m1[s]+m2[s]", []expr.Effect{rs("q", add(ml("m1", r("s")), ml("m2", r("s"))))}, 0},
		{"t:=m3[u]; m3[u]:=t2", []expr.Effect{rs("t", ml("m3", r("u"))), ms("m3", r("u"), r("t2"))}, 0},
		{"m3[v]:=m3[v]", []expr.Effect{ms("m3", r("v"), ml("m3", r("v")))}, 0},
		{"nothing", nil, 0},
		{"memorder", nil, model.TypeMemOrder},
		{"syscall", nil, model.TypeSyscall},
		{"cpustate w:=1", []expr.Effect{rs("w", c(1))}, model.TypeCPUStateChange},
		{"x:=a", []expr.Effect{rs("x", r("a"))}, 0},
		{"y,z:=m2[y],1", []expr.Effect{rs("y", ml("m2", r("y"))), rs("z", c(1))}, 0},
		// registers and memory spaces are separate name spaces: a register called like a memory
		// space and a memory space called like a register must not be confused
		{"reg m1:=1", []expr.Effect{rs("m1", c(1))}, 0},
		{"zz:=reg m2", []expr.Effect{rs("zz", r("m2"))}, 0},
		{"mem a[aa]:=bb", []expr.Effect{ms("a", r("aa"), r("bb"))}, 0},
		{"cc:=mem a[dd]", []expr.Effect{rs("cc", ml("a", r("dd")))}, 0},
	}
}

type synDetails struct{ s string }

func (d synDetails) Name() string   { return d.s }
func (d synDetails) String() string { return d.s }

type c06SynCase struct {
	Seq []int    `json:"synthetic_sequence"` // indices into synAlphabet
	Pos int      `json:"pos"`
	Dir string   `json:"dir"`
	Txt []string `json:"text,omitempty"`
	// Tour: history pass (c06SynTour)
	Tour bool `json:"tour,omitempty"`
}

func c06SynRun(c c06SynCase) (*eng.Fail, bool) {
	al := synAlphabet()
	var pins []parser.Instruction
	addr := uint64(0x1000)
	for i, k := range c.Seq {
		_ = i
		pins = append(pins, parser.Instruction{Type: al[k].Typ, Addr: model.Addr(addr), Bytes: make([]byte, []int{4, 2, 6}[k%3]), Effects: al[k].Effs, Details: synDetails{al[k].Name}})
		addr += uint64([]int{4, 2, 6}[k%3])
		c.Txt = append(c.Txt, al[k].Name)
	}
	code, err := deps.NewCode(0x1000, pins)
	if err != nil || code.Len() != 1 {
		return nil, false
	}
	a, b := al[c.Seq[c.Pos]], al[c.Seq[c.Pos+1]]
	if !independent(factsOfEffects(a.Effs, a.Typ), factsOfEffects(b.Effs, b.Typ)) {
		return nil, false
	}
	from, to := c.Pos, c.Pos+1
	if c.Dir == "back" {
		from, to = to, from
	}
	var merr error
	p, stack := eng.Catch(func() { merr = code.Index(0).Move(from, to) })
	if p != nil {
		return &eng.Fail{Sig: "Move panic " + eng.PanicSite(stack), What: fmt.Sprintf("Move(%d,%d) panics: %v", from, to, p), Case: c}, true
	}
	if merr != nil {
		return &eng.Fail{Sig: fmt.Sprintf("independent synthetic pair not swappable (%s)", c.Dir),
			What: fmt.Sprintf("%q and %q are independent, yet Move(%d,%d) is refused: %v", a.Name, b.Name, from, to, merr), Case: c}, true
	}
	return nil, true
}

// c06SynTour: the property after a history. On ONE code model of the synthetic sequence every
// move (i,j), i != j, is attempted in a fixed order (some are refused, some reorder the block);
// after each attempt every adjacent pair that satisfies the antecedent must swap forth and back.
func c06SynTour(c c06SynCase) (*eng.Fail, bool) {
	al := synAlphabet()
	// index len(al): a computed jump, which ends its block (every instruction of the block is
	// control-dependent on it)
	al = append(al, synIns{"jump to jt", []expr.Effect{expr.NewRegStore(expr.NewRegLoad("jt", 8), expr.IPKey, 8)}, 0})
	var pins []parser.Instruction
	addr := uint64(0x1000)
	byAddr := map[model.Addr]int{}
	nblocks := 1
	for _, k := range c.Seq {
		if k < 0 { // a gap in the address space: what follows is another block
			addr += 0x100
			nblocks++
			c.Txt = append(c.Txt, "<gap>")
			continue
		}
		byAddr[model.Addr(addr)] = k
		pins = append(pins, parser.Instruction{Type: al[k].Typ, Addr: model.Addr(addr), Bytes: make([]byte, []int{4, 2, 6}[k%3]), Effects: al[k].Effs, Details: synDetails{al[k].Name}})
		addr += uint64([]int{4, 2, 6}[k%3])
		c.Txt = append(c.Txt, al[k].Name)
	}
	code, err := deps.NewCode(0x1000, pins)
	if err != nil || code.Len() != nblocks {
		return nil, false
	}
	swapAll := func(after string) *eng.Fail {
		for bi := 0; bi < code.Len(); bi++ {
			blk := code.Index(bi)
			for k := 0; k+1 < blk.Num(); k++ {
				ins := blk.Instructions()
				a, b := al[byAddr[ins[k].OrigAddr()]], al[byAddr[ins[k+1].OrigAddr()]]
				if byAddr[ins[k+1].OrigAddr()] == len(al)-1 {
					continue // the later one is the block's terminating jump
				}
				if !independent(factsOfEffects(a.Effs, a.Typ), factsOfEffects(b.Effs, b.Typ)) {
					continue
				}
				for _, mv := range [][2]int{{k, k + 1}, {k + 1, k}} {
					var merr error
					p, stack := eng.Catch(func() { merr = blk.Move(mv[0], mv[1]) })
					if p != nil {
						return &eng.Fail{Sig: "Move panic " + eng.PanicSite(stack), What: fmt.Sprintf("Move(%d,%d) in block %d %s panics: %v", mv[0], mv[1], bi, after, p), Case: c}
					}
					if merr != nil {
						return &eng.Fail{Sig: "independent synthetic pair not swappable (after a history)",
							What: fmt.Sprintf("%s: %q and %q at positions %d,%d of block %d are independent, yet Move(%d,%d) is refused: %v", after, a.Name, b.Name, k, k+1, bi, mv[0], mv[1], merr), Case: c}
					}
				}
			}
		}
		return nil
	}
	hist := "initially"
	if f := swapAll(hist); f != nil {
		return f, true
	}
	if nblocks > 1 {
		// block moves in between: every ordered pair of block positions, twice over
		for round := 0; round < 2; round++ {
			for i := 0; i < nblocks; i++ {
				for j := 0; j < nblocks; j++ {
					if i == j {
						continue
					}
					var merr error
					if p, stack := eng.Catch(func() { merr = code.Move(i, j) }); p != nil {
						return &eng.Fail{Sig: "Move panic " + eng.PanicSite(stack), What: fmt.Sprintf("block move (%d,%d) after %s panics: %v", i, j, hist, p), Case: c}, true
					}
					hist += fmt.Sprintf("; block move (%d,%d) %v", i, j, map[bool]string{true: "accepted", false: "refused"}[merr == nil])
					if f := swapAll("after " + hist); f != nil {
						return f, true
					}
				}
			}
		}
		return nil, true
	}
	blk := code.Index(0)
	n := blk.Num()
	for i := 0; i < n; i++ {
		for j := 0; j < n; j++ {
			if i == j {
				continue
			}
			var merr error
			if p, stack := eng.Catch(func() { merr = blk.Move(i, j) }); p != nil {
				return &eng.Fail{Sig: "Move panic " + eng.PanicSite(stack), What: fmt.Sprintf("Move(%d,%d) after %s panics: %v", i, j, hist, p), Case: c}, true
			}
			hist += fmt.Sprintf("; Move(%d,%d) %v", i, j, map[bool]string{true: "accepted", false: "refused"}[merr == nil])
			if f := swapAll("after " + hist); f != nil {
				return f, true
			}
		}
	}
	return nil, true
}

func (f *insFacts) memAccess() bool { return len(f.memRead)+len(f.memWrite) > 0 }

// independent decides the literal antecedent of the property for a (earlier), b (later).
func independent(a, b *insFacts) bool {
	for k := range a.regs {
		if b.regs[k] {
			return false
		}
	}
	for k := range a.memWrite {
		if b.memRead[k] || b.memWrite[k] {
			return false
		}
	}
	for k := range b.memWrite {
		if a.memRead[k] {
			return false
		}
	}
	special := func(f *insFacts) bool { return f.typ.Syscall() || f.typ.CPUStateChange() }
	if special(a) || special(b) {
		return false
	}
	if a.typ.MemOrder() && (b.memAccess() || b.typ.MemOrder()) {
		return false
	}
	if b.typ.MemOrder() && (a.memAccess() || a.typ.MemOrder()) {
		return false
	}
	return true
}

func c06Run(c c06Case) (*eng.Fail, bool) {
	for _, w := range c.Words {
		c.Text = append(c.Text, prog.Dis(w))
	}
	s, err := newC07Sys([]prog.Seg{{Base: 0x1000, Words: c.Words}}, 0x1000)
	if err != nil {
		return nil, false
	}
	code, _, err := s.build(nil)
	if err != nil {
		return nil, false
	}
	a1, a2 := uint64(0x1000+4*c.Pos), uint64(0x1000+4*c.Pos+4)
	b1, ok1 := code.Address(model.Addr(a1))
	b2, ok2 := code.Address(model.Addr(a2))
	if !ok1 || !ok2 || b1.Begin() != b2.Begin() {
		return nil, false // not adjacent within one block
	}
	i1, _ := b1.Address(model.Addr(a1))
	i2, _ := b1.Address(model.Addr(a2))
	// the later one must not be the block's terminating jump
	if i2.Idx() == b1.Num()-1 && len(i2.Jumps()) > 0 {
		return nil, false
	}
	fa, oka := factsOf(a1, c.Words[c.Pos])
	fb, okb := factsOf(a2, c.Words[c.Pos+1])
	if !oka || !okb || !independent(fa, fb) {
		return nil, false
	}
	from, to := i1.Idx(), i2.Idx()
	if c.Dir == "back" {
		from, to = to, from
	}
	var merr error
	p, stack := eng.Catch(func() { merr = b1.Move(from, to) })
	if p != nil {
		return &eng.Fail{Sig: "Move panic " + eng.PanicSite(stack), What: fmt.Sprintf("Move(%d,%d) panics: %v", from, to, p), Case: c}, true
	}
	if merr != nil {
		return &eng.Fail{Sig: fmt.Sprintf("independent pair not swappable (%s)", c.Dir),
			What: fmt.Sprintf("%q and %q share no register or written memory space, are not special/ordering, yet Move(%d,%d) is refused: %v", c.Text[c.Pos], c.Text[c.Pos+1], from, to, merr), Case: c}, true
	}
	return nil, true
}

func c06Alphabet() []uint32 {
	return []uint32{
		prog.Nop, prog.Addi(1, 0, 1), prog.Addi(2, 0, 2), prog.Add(3, 1, 2), prog.Add(4, 5, 6), prog.Sub(7, 8, 9), prog.Mul(10, 11, 12),
		prog.Lui(13, 5), prog.Auipc(14, 1), prog.Addw(15, 16, 17),
		prog.Ld(18, 19, 0), prog.Lw(20, 21, 4), prog.Lbu(1, 2, 0), prog.Sd(22, 23, 0), prog.Sb(24, 25, 1), prog.Sw(1, 2, 8),
		prog.AmoaddW(26, 27, 28), prog.LrW(29, 30), prog.ScW(31, 30, 29), prog.AmoaddW(1, 2, 3),
		prog.Fence, prog.FenceI, prog.Ecall, prog.Ebreak, prog.Csrrw(5, 6, 0x300), prog.Csrrw(0, 0, 0xc00),
		prog.Jal(9, 4), prog.Jal(0, 4), prog.Beq(0, 0, 4), prog.Beq(10, 11, 4),
		prog.Beq(12, 13, 8), prog.Jal(0, 8), prog.Jalr(0, 14, 0), prog.Bne(1, 2, 8),
		prog.Addi(0, 0, 5), prog.Add(0, 1, 2), prog.Ld(0, 3, 0), prog.Div(6, 7, 8), prog.Addi(9, 9, 1), prog.Sd(0, 4, 0),
	}
}

func init() {
	checks["C06"] = eng.Check{
		Rule:        "every ordered pair over a 40-word alphabet covering every instruction class (ALU reg/imm, lui/auipc, W-ops, loads, stores, AMOs, LR/SC, fence, fence.i, ecall, ebreak, CSR, pseudo-jumps, real jumps, x0 destinations) placed adjacent with prefix in {none, nop, a writer of x1} and suffix in {none, nop nop, terminating jump + pad}; plus every adjacent pair of the C05 block space; plus every ordered pair over 21 SYNTHETIC instructions with effect shapes the RISC-V front end never produces (two stores into one / two memory spaces, two register writes, loads from two spaces, load+store of one space, effect-free typed instructions, registers named like memory spaces and memory spaces named like registers) in 4 contexts. An independent walker over the front end's lifted effects decides the property's literal antecedent (no shared register incl. ip, no shared memory space with a writer, neither syscall/CPU-state, no memory-ordering instruction paired with an access or another ordering instruction, later one not the terminating jump); then Move(i,i+1) and Move(i+1,i), each on a fresh real code, must be accepted. History pass: on ONE code model of every synthetic sequence of 3 instructions (quick: a third) every move (i,j) is attempted in a fixed order, and after each attempt (accepted or refused) every adjacent pair satisfying the antecedent must swap forth and back; the same on codes of 2 and 3 blocks (separated by address gaps, with and without a computed jump ending each block) where every ordered pair of block positions is moved, twice over, with the swap requirement after each block move. Non-trivial = pair satisfying the antecedent.",
		Assumptions: []string{"instruction facts are recomputed from riscv.Parse effects, not read from deps"},
		Run: func(r *eng.Run) {
			alpha := c06Alphabet()
			prefixes := [][]uint32{nil, {prog.Nop}, {prog.Addi(1, 0, 9)}}
			suffixes := [][]uint32{nil, {prog.Nop, prog.Nop}, {prog.Beq(30, 31, 8), prog.Nop, prog.Nop, prog.Nop}}
			do := func(c c06Case) {
				f, in := c06Run(c)
				r.Eval(1)
				if in {
					r.Nontrivial(1)
				}
				if f != nil {
					r.Report(f)
					r.Outcome(f.Sig)
				}
			}
			r.Par(len(alpha), func(i int) {
				for _, b := range alpha {
					for _, pre := range prefixes {
						for _, suf := range suffixes {
							ws := append(append(append([]uint32{}, pre...), alpha[i], b), suf...)
							for _, d := range []string{"fwd", "back"} {
								do(c06Case{Words: ws, Pos: len(pre), Dir: d})
							}
						}
					}
				}
			})
			codes := c05Codes(r)
			r.Par(len(codes), func(i int) {
				ws := codes[i].segs[0].Words
				for p := 0; p+1 < len(ws); p++ {
					for _, d := range []string{"fwd", "back"} {
						do(c06Case{Words: ws, Pos: p, Dir: d})
					}
				}
			})
			// synthetic instructions: every ordered pair, alone and with a prefix / suffix instruction
			na := len(synAlphabet())
			r.Par(na, func(i int) {
				for j := 0; j < na; j++ {
					for _, ctx := range [][2]int{{-1, -1}, {0, -1}, {-1, 15}, {11, 11}} {
						var seq []int
						pos := 0
						if ctx[0] >= 0 {
							seq = append(seq, ctx[0])
							pos = 1
						}
						seq = append(seq, i, j)
						if ctx[1] >= 0 {
							seq = append(seq, ctx[1])
						}
						for _, d := range []string{"fwd", "back"} {
							f, in := c06SynRun(c06SynCase{Seq: seq, Pos: pos, Dir: d})
							r.Eval(1)
							if in {
								r.Nontrivial(1)
							}
							if f != nil {
								r.Report(f)
								r.Outcome(f.Sig)
							}
						}
					}
				}
			})
			// the same after a history of accepted and refused moves on one long-lived code model:
			// every synthetic sequence of 3 instructions (quick: a third of them)
			r.Par(na*na, func(ij int) {
				for k := 0; k < na; k++ {
					if r.Quick() && (ij+k)%3 != 0 {
						continue
					}
					f, in := c06SynTour(c06SynCase{Seq: []int{ij / na, ij % na, k}, Tour: true})
					r.Eval(1)
					if in {
						r.Nontrivial(1)
					}
					if f != nil {
						r.Report(f)
						r.Outcome(f.Sig)
					}
				}
			})
			// ... and with block moves in between: two and three blocks separated by address gaps,
			// every ordered pair of synthetic instructions as the second block
			r.Par(na, func(i int) {
				for j := 0; j < na; j++ {
					for _, seq := range [][]int{{0, 1, -1, i, j}, {i, j, -1, 3, 6, 2}, {2, -1, i, j, -1, 7, 15},
						{0, 1, na, -1, i, j, na}, {i, j, 15, na, -1, 3, 6, 2, na}, {2, na, -1, 11, i, j, na, -1, 7, 15}} {
						f, in := c06SynTour(c06SynCase{Seq: seq, Tour: true})
						r.Eval(1)
						if in {
							r.Nontrivial(1)
						}
						if f != nil {
							r.Report(f)
							r.Outcome(f.Sig)
						}
					}
				}
			})
			r.Sample(c06Case{Words: []uint32{prog.Add(4, 5, 6), prog.Ld(18, 19, 0)}, Pos: 0, Dir: "fwd"})
		},
		Replay: func(r *eng.Run, raw json.RawMessage) *eng.Fail {
			var sc c06SynCase
			if err := json.Unmarshal(raw, &sc); err == nil && len(sc.Seq) > 0 {
				if sc.Tour {
					f, _ := c06SynTour(sc)
					return f
				}
				f, _ := c06SynRun(sc)
				return f
			}
			var c c06Case
			if err := json.Unmarshal(raw, &c); err != nil {
				panic(err)
			}
			f, _ := c06Run(c)
			return f
		},
	}
}
