package main

import (
	"encoding/json"
	"fmt"
	"sort"
	"strings"

	"mltwist/internal/deps"
	"mltwist/internal/parser"
	"mltwist/pkg/model"
	"mltwist/verifh/eng"
	"mltwist/verifh/prog"
)

// C07 — move bookkeeping stays consistent across any history.

type c07Op struct {
	Kind  string `json:"kind"` // ins | block
	Block int    `json:"block,omitempty"`
	From  int    `json:"from"`
	To    int    `json:"to"`
}

type c07Case struct {
	Syn   []int      `json:"synthetic,omitempty"` // indices into the synthetic instruction alphabet of C06 (instead of Segs)
	Segs  []prog.Seg `json:"segments"`
	Entry uint64     `json:"entry"`
	Path  []c07Op    `json:"path"` // history reaching the state
	Op    *c07Op     `json:"op,omitempty"`
	Text  []string   `json:"text,omitempty"`
	// Tour: Path is the complete operation list executed on ONE long-lived
	// instance (accepted, rejected and undo moves; the invariants, which query
	// every bound, are evaluated after each of them).
	Tour bool `json:"tour,omitempty"`
}

// model of a code: block order (by original begin) and per-block order of orig addrs.
type c07Model struct {
	blocks [][]uint64 // current order; each = orig addresses in current order
	begins []uint64   // begin address of each block (same index as blocks)
}

func (m *c07Model) key() string {
	var sb strings.Builder
	for i, b := range m.blocks {
		fmt.Fprintf(&sb, "%x:", m.begins[i])
		for _, a := range b {
			fmt.Fprintf(&sb, "%x,", a)
		}
		sb.WriteString("|")
	}
	return sb.String()
}

func (m *c07Model) clone() *c07Model {
	n := &c07Model{begins: append([]uint64{}, m.begins...)}
	for _, b := range m.blocks {
		n.blocks = append(n.blocks, append([]uint64{}, b...))
	}
	return n
}

func rotate[T any](s []T, from, to int) {
	x := s[from]
	if from < to {
		copy(s[from:to], s[from+1:to+1])
	} else {
		copy(s[to+1:from+1], s[to:from])
	}
	s[to] = x
}

func c07Snapshot(c *deps.Code) string {
	var sb strings.Builder
	for _, b := range c.Blocks() {
		fmt.Fprintf(&sb, "B%d[%x,%x)n%d{", b.Idx(), b.Begin(), b.End(), b.Num())
		for _, in := range b.Instructions() {
			fmt.Fprintf(&sb, "%x@%x-%x#%d %s %x;", in.OrigAddr(), in.Begin(), in.End(), in.Idx(), in.String(), in.Bytes())
		}
		sb.WriteString("}")
	}
	return sb.String()
}

func modelOf(c *deps.Code) *c07Model {
	m := &c07Model{}
	for _, b := range c.Blocks() {
		var l []uint64
		for _, in := range b.Instructions() {
			l = append(l, uint64(in.OrigAddr()))
		}
		m.blocks = append(m.blocks, l)
		m.begins = append(m.begins, uint64(b.Begin()))
	}
	return m
}

// c07Invariants checks every per-state invariant of the property.
func c07Invariants(c *deps.Code, m *c07Model, lens map[uint64]uint64) string {
	bl := c.Blocks()
	if len(bl) != len(m.blocks) || c.Len() != len(bl) {
		return fmt.Sprintf("block count %d/%d, model %d", len(bl), c.Len(), len(m.blocks))
	}
	total := 0
	for bi, b := range bl {
		if uint64(b.Begin()) != m.begins[bi] {
			return fmt.Sprintf("block order: position %d holds block %#x, model %#x", bi, b.Begin(), m.begins[bi])
		}
		if b.Idx() != bi || uint64(c.Index(bi).Begin()) != m.begins[bi] {
			return fmt.Sprintf("block at position %d reports index %d", bi, b.Idx())
		}
		ins := b.Instructions()
		if len(ins) != len(m.blocks[bi]) || b.Num() != len(ins) {
			return fmt.Sprintf("block %d has %d instructions, model %d", bi, len(ins), len(m.blocks[bi]))
		}
		total += len(ins)
		addr := uint64(b.Begin())
		pos := map[uint64]int{}
		for i, in := range ins {
			if uint64(in.OrigAddr()) != m.blocks[bi][i] {
				return fmt.Sprintf("block %#x position %d holds %#x, model %#x", b.Begin(), i, in.OrigAddr(), m.blocks[bi][i])
			}
			if in.Idx() != i || uint64(b.Index(i).OrigAddr()) != m.blocks[bi][i] {
				return fmt.Sprintf("instruction %#x at position %d reports index %d", in.OrigAddr(), i, in.Idx())
			}
			if uint64(in.Begin()) != addr || uint64(in.End()) != addr+lens[uint64(in.OrigAddr())] || uint64(in.Len()) != lens[uint64(in.OrigAddr())] {
				return fmt.Sprintf("addresses not contiguous: instruction %#x at position %d of block %#x is at [%#x,%#x), expected to start at %#x", in.OrigAddr(), i, b.Begin(), in.Begin(), in.End(), addr)
			}
			addr = uint64(in.End())
			pos[uint64(in.OrigAddr())] = i
			lb, ub := b.LowerBound(i), b.UpperBound(i)
			if !(lb <= i && i <= ub) || lb < 0 || ub >= len(ins) {
				return fmt.Sprintf("instruction %#x at position %d outside its own bounds [%d,%d]", in.OrigAddr(), i, lb, ub)
			}
		}
		if addr != uint64(b.End()) || uint64(b.Len()) != addr-uint64(b.Begin()) {
			return fmt.Sprintf("block %#x ends at %#x, instructions end at %#x", b.Begin(), b.End(), addr)
		}
		for _, e := range deps.VerifEdges(b) {
			pa, oka := pos[uint64(e[0])]
			pb, okb := pos[uint64(e[1])]
			if !oka || !okb || pa >= pb {
				return fmt.Sprintf("dependency violated: %#x (pos %d) must precede %#x (pos %d)", e[0], pa, e[1], pb)
			}
		}
		// lookups
		for i, in := range ins {
			got, ok := b.Address(in.Begin())
			if !ok || got.OrigAddr() != in.OrigAddr() {
				return fmt.Sprintf("Block.Address(%#x) does not find instruction at position %d", in.Begin(), i)
			}
			if _, ok := b.Address(in.Begin() + 1); ok {
				return fmt.Sprintf("Block.Address(%#x) finds a mid-instruction address", in.Begin()+1)
			}
			cb, ok := c.Address(in.Begin())
			if !ok || cb.Begin() != b.Begin() {
				return fmt.Sprintf("Code.Address(%#x) does not find block %#x", in.Begin(), b.Begin())
			}
			cb, ok = c.Address(in.Begin() + 1)
			if !ok || cb.Begin() != b.Begin() {
				return fmt.Sprintf("Code.Address(%#x) (mid-instruction) does not find block %#x", in.Begin()+1, b.Begin())
			}
		}
		if _, ok := b.Address(b.Begin() - 1); ok {
			return "Block.Address(begin-1) finds something"
		}
		if _, ok := b.Address(b.End()); ok {
			return "Block.Address(end) finds something"
		}
	}
	if c.NumInstr() != total {
		return fmt.Sprintf("NumInstr %d, counted %d", c.NumInstr(), total)
	}
	// Code.Address outside every block
	type rng struct{ b, e uint64 }
	var rs []rng
	for _, b := range bl {
		rs = append(rs, rng{uint64(b.Begin()), uint64(b.End())})
	}
	sort.Slice(rs, func(i, j int) bool { return rs[i].b < rs[j].b })
	probe := func(a uint64) string {
		in := false
		for _, r := range rs {
			if a >= r.b && a < r.e {
				in = true
			}
		}
		if _, ok := c.Address(model.Addr(a)); ok != in {
			return fmt.Sprintf("Code.Address(%#x) found=%v, inside a block=%v", a, ok, in)
		}
		return ""
	}
	for _, r := range rs {
		for _, a := range []uint64{r.b - 1, r.b, r.e - 1, r.e} {
			if s := probe(a); s != "" {
				return s
			}
		}
	}
	return ""
}

type c07Sys struct {
	syn   []int
	segs  []prog.Seg
	entry uint64
	ins   []parser.Instruction
	lens  map[uint64]uint64
}

func (s *c07Sys) build(path []c07Op) (*deps.Code, *c07Model, error) {
	c, err := prog.Code(s.entry, s.ins)
	if err != nil {
		return nil, nil, err
	}
	m := modelOf(c)
	for _, op := range path {
		if op.Kind == "ins" {
			if err := c.Index(op.Block).Move(op.From, op.To); err != nil {
				return nil, nil, fmt.Errorf("replay diverged: %v", err)
			}
			rotate(m.blocks[op.Block], op.From, op.To)
		} else {
			if err := c.Move(op.From, op.To); err != nil {
				return nil, nil, fmt.Errorf("replay diverged: %v", err)
			}
			rotate(m.blocks, op.From, op.To)
			rotate(m.begins, op.From, op.To)
		}
	}
	return c, m, nil
}

// applyOp applies op to c with all oracles; returns failure text, class, accepted.
func c07Apply(c *deps.Code, m *c07Model, op c07Op, lens map[uint64]uint64) (string, string, bool) {
	before := c07Snapshot(c)
	var err error
	var expect bool
	if op.Kind == "ins" {
		b := c.Index(op.Block)
		n := b.Num()
		valid := op.From >= 0 && op.From < n && op.To >= 0 && op.To < n
		if valid {
			lb, ub := b.LowerBound(op.From), b.UpperBound(op.From)
			expect = op.To >= lb && op.To <= ub
		}
		p, stack := eng.Catch(func() { err = b.Move(op.From, op.To) })
		if p != nil {
			return fmt.Sprintf("Block.Move(%d,%d) panics: %v", op.From, op.To, p), "Block.Move panic " + eng.PanicSite(stack), false
		}
	} else {
		n := c.Len()
		expect = op.From >= 0 && op.From < n && op.To >= 0 && op.To < n
		p, stack := eng.Catch(func() { err = c.Move(op.From, op.To) })
		if p != nil {
			return fmt.Sprintf("Code.Move(%d,%d) panics: %v", op.From, op.To, p), "Code.Move panic " + eng.PanicSite(stack), false
		}
	}
	if (err == nil) != expect {
		return fmt.Sprintf("%s move %d->%d (block %d): accepted=%v, but valid-and-within-reported-bounds=%v (%v)", op.Kind, op.From, op.To, op.Block, err == nil, expect, err),
			fmt.Sprintf("%s-move admission accepted=%v expected=%v", op.Kind, err == nil, expect), err == nil
	}
	if err != nil {
		if after := c07Snapshot(c); after != before {
			return fmt.Sprintf("rejected %s move %d->%d changed the code: %s -> %s", op.Kind, op.From, op.To, before, after), op.Kind + "-move rejected-but-changed", false
		}
		if s := c07Invariants(c, m, lens); s != "" {
			return fmt.Sprintf("after rejected %s move %d->%d: %s", op.Kind, op.From, op.To, s), op.Kind + "-move invariant-after-rejection", false
		}
		return "", "", false
	}
	if op.Kind == "ins" {
		rotate(m.blocks[op.Block], op.From, op.To)
	} else {
		rotate(m.blocks, op.From, op.To)
		rotate(m.begins, op.From, op.To)
	}
	if s := c07Invariants(c, m, lens); s != "" {
		cls := "invariant"
		switch {
		case strings.Contains(s, "contiguous"):
			cls = "addresses"
		case strings.Contains(s, "Address("):
			cls = "lookup"
		case strings.Contains(s, "dependency"):
			cls = "dependency-order"
		case strings.Contains(s, "bounds"):
			cls = "own-bounds"
		case strings.Contains(s, "holds"):
			cls = "order"
		}
		return fmt.Sprintf("after accepted %s move %d->%d (block %d): %s", op.Kind, op.From, op.To, op.Block, s), op.Kind + "-move " + cls, true
	}
	return "", "", true
}

// newC07SysSyn builds a single-block code from synthetic instructions.
func newC07SysSyn(seq []int) (*c07Sys, error) { return newC07SysSynAt(seq, 0x1000) }

// newC07SysSynAt: the same with the block beginning at base (0 is a legal address).
func newC07SysSynAt(seq []int, base uint64) (*c07Sys, error) {
	al := synAlphabet()
	var pins []parser.Instruction
	// synthetic instructions have different byte lengths (2, 4 or 6 by alphabet index):
	// address bookkeeping of moves must not rely on a uniform length
	addr := base
	for _, k := range seq {
		n := []int{4, 2, 6}[k%3]
		pins = append(pins, parser.Instruction{Type: al[k].Typ, Addr: model.Addr(addr), Bytes: make([]byte, n), Effects: al[k].Effs, Details: synDetails{al[k].Name}})
		addr += uint64(n)
	}
	s := &c07Sys{syn: append([]int{}, seq...), entry: base, ins: pins, lens: map[uint64]uint64{},
		segs: []prog.Seg{{Base: base, Words: make([]uint32, (addr-base+3)/4)}}}
	for _, in := range pins {
		s.lens[uint64(in.Addr)] = uint64(len(in.Bytes))
	}
	if _, err := prog.Code(base, pins); err != nil {
		return nil, err
	}
	return s, nil
}

func sysOfCase(c c07Case) (*c07Sys, error) {
	if len(c.Syn) > 0 {
		return newC07SysSynAt(c.Syn, c.Entry)
	}
	return newC07Sys(c.Segs, c.Entry)
}

func newC07Sys(segs []prog.Seg, entry uint64) (*c07Sys, error) {
	ins, err := prog.Instructions(segs)
	if err != nil {
		return nil, err
	}
	s := &c07Sys{segs: segs, entry: entry, ins: ins, lens: map[uint64]uint64{}}
	for _, in := range ins {
		s.lens[uint64(in.Addr)] = uint64(in.Len())
	}
	if _, err := prog.Code(entry, ins); err != nil {
		return nil, err
	}
	return s, nil
}

// c07Explore runs BFS to closure on one code. Returns failure.
func c07Explore(r *eng.Run, s *c07Sys, maxStates int) *eng.Fail {
	mk := func(path []c07Op, op *c07Op) c07Case {
		var txt []string
		for _, sg := range s.segs {
			for _, w := range sg.Words {
				txt = append(txt, prog.Dis(w))
			}
		}
		return c07Case{Syn: s.syn, Segs: s.segs, Entry: s.entry, Path: append([]c07Op{}, path...), Op: op, Text: txt}
	}
	c0, m0, err := s.build(nil)
	if err != nil {
		return nil
	}
	if inv := c07Invariants(c0, m0, s.lens); inv != "" {
		return &eng.Fail{Sig: "initial invariant", What: "freshly built code: " + inv, Case: mk(nil, nil)}
	}
	type st struct {
		path []c07Op
		snap string
	}
	seen := map[string]string{m0.key(): c07Snapshot(c0)}
	queue := []st{{nil, ""}}
	r.State(1)
	for len(queue) > 0 {
		cur := queue[0]
		queue = queue[1:]
		c, m, err := s.build(cur.path)
		r.Trace(1)
		if err != nil {
			return &eng.Fail{Sig: "replay diverged", What: err.Error(), Case: mk(cur.path, nil)}
		}
		// menu
		var ops []c07Op
		for bi := range m.blocks {
			n := len(m.blocks[bi])
			for f := -1; f <= n; f++ {
				for t := -1; t <= n; t++ {
					ops = append(ops, c07Op{Kind: "ins", Block: bi, From: f, To: t})
				}
			}
		}
		nb := len(m.blocks)
		if nb > 1 {
			for f := -1; f <= nb; f++ {
				for t := -1; t <= nb; t++ {
					ops = append(ops, c07Op{Kind: "block", From: f, To: t})
				}
			}
		}
		for _, op := range ops {
			op := op
			mm := m.clone()
			what, cls, accepted := c07Apply(c, mm, op, s.lens)
			r.Trans(1)
			if what != "" {
				return &eng.Fail{Sig: cls, What: what, Case: mk(cur.path, &op)}
			}
			if !accepted {
				continue
			}
			changed := mm.key() != m.key()
			if changed {
				k := mm.key()
				snap := c07Snapshot(c)
				if prev, ok := seen[k]; ok {
					if prev != snap {
						return &eng.Fail{Sig: "history-dependent state", What: fmt.Sprintf("same order reached by two histories with different observable state: %s vs %s", prev, snap), Case: mk(cur.path, &op)}
					}
				} else {
					seen[k] = snap
					r.State(1)
					if len(seen) <= maxStates {
						queue = append(queue, st{append(append([]c07Op{}, cur.path...), op), snap})
					} else {
						r.Cap("state cap reached in one code")
					}
				}
				// return to the current state
				c, m, err = s.build(cur.path)
				if err != nil {
					return &eng.Fail{Sig: "replay diverged", What: err.Error(), Case: mk(cur.path, nil)}
				}
			}
		}
	}
	r.Outcome(fmt.Sprintf("states=%d", len(seen)))
	if len(seen) > 1 {
		r.Nontrivial(1)
	}
	return nil
}

// c07Tour walks ONE long-lived real instance through a depth-bounded DFS over
// the moves it accepts (undo = inverse move), evaluating all oracles after
// every operation. Unlike the BFS above it never rebuilds the instance, so
// state hidden from the observable snapshot (caches, stale indices) that
// accumulates over a history is carried along. visit (optional) is called in
// every node with the live code.
func c07Tour(r *eng.Run, s *c07Sys, depth int, visit func(c *deps.Code, ops []c07Op) *eng.Fail) *eng.Fail {
	c, m, err := s.build(nil)
	if err != nil {
		return nil
	}
	var ops []c07Op
	mk := func(op *c07Op) c07Case {
		return c07Case{Syn: s.syn, Segs: s.segs, Entry: s.entry, Path: append([]c07Op{}, ops...), Op: op, Text: c05TextOf(s), Tour: true}
	}
	if inv := c07Invariants(c, m, s.lens); inv != "" {
		return &eng.Fail{Sig: "initial invariant", What: inv, Case: mk(nil)}
	}
	var fail *eng.Fail
	var dfs func(d int) bool
	dfs = func(d int) bool {
		if visit != nil {
			if f := visit(c, ops); f != nil {
				f.Case = mk(nil)
				fail = f
				return false
			}
		}
		if d == 0 {
			return true
		}
		for bi := range m.blocks {
			n := len(m.blocks[bi])
			for f := 0; f < n; f++ {
				for t := -1; t <= n; t++ {
					if f == t {
						continue
					}
					op := c07Op{Kind: "ins", Block: bi, From: f, To: t}
					what, cls, accepted := c07Apply(c, m, op, s.lens)
					r.Trans(1)
					if what != "" {
						fail = &eng.Fail{Sig: cls + " (long-lived instance)", What: what, Case: mk(&op)}
						return false
					}
					ops = append(ops, op)
					if !accepted {
						continue
					}
					r.State(1)
					if !dfs(d - 1) {
						return false
					}
					undo := c07Op{Kind: "ins", Block: bi, From: t, To: f}
					what, cls, accepted = c07Apply(c, m, undo, s.lens)
					r.Trans(1)
					if what != "" {
						fail = &eng.Fail{Sig: cls + " (long-lived instance)", What: what, Case: mk(&undo)}
						return false
					}
					ops = append(ops, undo)
					if !accepted {
						return false // cannot return: end of this tour (not a property violation)
					}
				}
			}
		}
		return true
	}
	dfs(depth)
	r.Trace(1)
	return fail
}

func c05TextOf(s *c07Sys) []string {
	var txt []string
	for _, k := range s.syn {
		txt = append(txt, synAlphabet()[k].Name)
	}
	for _, sg := range s.segs {
		for _, w := range sg.Words {
			txt = append(txt, prog.Dis(w))
		}
	}
	return txt
}

// c07ReplayTour re-executes a tour's operation list on one fresh instance.
func c07ReplayTour(s *c07Sys, c c07Case) *eng.Fail {
	code, m, err := s.build(nil)
	if err != nil {
		return nil
	}
	if inv := c07Invariants(code, m, s.lens); inv != "" {
		return &eng.Fail{Sig: "initial invariant", What: inv, Case: c}
	}
	ops := append([]c07Op{}, c.Path...)
	if c.Op != nil {
		ops = append(ops, *c.Op)
	}
	for _, op := range ops {
		what, cls, _ := c07Apply(code, m, op, s.lens)
		if what != "" {
			return &eng.Fail{Sig: cls + " (long-lived instance)", What: what, Case: c}
		}
	}
	return nil
}

func c07Replay(r *eng.Run, raw json.RawMessage) *eng.Fail {
	var c c07Case
	if err := json.Unmarshal(raw, &c); err != nil {
		panic(err)
	}
	s, err := sysOfCase(c)
	if err != nil {
		return nil
	}
	if c.Tour {
		return c07ReplayTour(s, c)
	}
	code, m, err := s.build(c.Path)
	if err != nil {
		return &eng.Fail{Sig: "replay diverged", What: err.Error(), Case: c}
	}
	if c.Op == nil {
		if inv := c07Invariants(code, m, s.lens); inv != "" {
			return &eng.Fail{Sig: "initial invariant", What: inv, Case: c}
		}
		return nil
	}
	what, cls, _ := c07Apply(code, m, *c.Op, s.lens)
	if what != "" {
		return &eng.Fail{Sig: cls, What: what, Case: c}
	}
	return nil
}

// word alphabet around the dependency rules
func depAlphabet() []uint32 {
	return []uint32{
		prog.Addi(1, 0, 1), prog.Addi(1, 0, 2), prog.Add(2, 1, 0), prog.Addi(1, 1, 1),
		prog.Sd(1, 2, 0), prog.Ld(1, 2, 0), prog.Addi(3, 0, 7), prog.Fence, prog.Ecall,
		prog.Csrrw(4, 3, 0x300), prog.Jal(5, 4), prog.Beq(0, 0, 4), prog.Auipc(6, 1), prog.AmoaddW(7, 2, 3),
	}
}

func c07Codes(r *eng.Run) []*c07Sys {
	var out []*c07Sys
	alpha := depAlphabet()
	maxLen := 3
	if !r.Quick() {
		maxLen = 4
	}
	var rec func(ws []uint32)
	rec = func(ws []uint32) {
		if len(ws) > 0 {
			if s, err := newC07Sys([]prog.Seg{{Base: 0x1000, Words: append([]uint32{}, ws...)}}, 0x1000); err == nil {
				out = append(out, s)
			}
		}
		if len(ws) < maxLen {
			for _, w := range alpha {
				rec(append(ws[:len(ws):len(ws)], w))
			}
		}
	}
	rec(nil)
	// synthetic single-block codes: effect shapes the RISC-V front end never produces
	na := len(synAlphabet())
	for i := 0; i < na; i++ {
		for j := 0; j < na; j++ {
			for k := -1; k < na; k++ {
				seq := []int{i, j}
				if k >= 0 {
					if r.Quick() && (i+j+k)%3 != 0 {
						continue
					}
					seq = append(seq, k)
				}
				if s, err := newC07SysSyn(seq); err == nil {
					out = append(out, s)
				}
				// the same block beginning at address 0 (pairs, and a third of the triples)
				if k < 0 || (i+j+k)%3 == 1 {
					if s, err := newC07SysSynAt(seq, 0); err == nil {
						out = append(out, s)
					}
				}
			}
		}
	}
	// real instructions in a block beginning at address 0
	for _, ws := range [][]uint32{
		{prog.Addi(1, 0, 1), prog.Addi(2, 0, 2), prog.Addi(3, 0, 3), prog.Addi(4, 0, 4)},
		{prog.Addi(1, 0, 1), prog.Add(2, 1, 0), prog.Addi(3, 0, 7), prog.Sd(1, 2, 0), prog.Jal(0, 8)},
	} {
		if s, err := newC07Sys([]prog.Seg{{Base: 0, Words: ws}}, 0); err == nil {
			out = append(out, s)
		}
	}
	// multi-block codes: branches/jumps creating 2..3 blocks of different sizes, gaps, entry in the middle
	multi := []struct {
		segs  []prog.Seg
		entry uint64
	}{
		{[]prog.Seg{{0x1000, []uint32{prog.Addi(1, 0, 1), prog.Addi(2, 0, 2), prog.Beq(1, 2, 8), prog.Addi(3, 0, 3), prog.Add(4, 1, 2), prog.Sd(4, 2, 0), prog.Jal(0, -24)}}}, 0x1000},
		{[]prog.Seg{{0x1000, []uint32{prog.Addi(1, 0, 1), prog.Addi(2, 0, 2)}}, {0x2000, []uint32{prog.Addi(3, 0, 3), prog.Ld(5, 2, 0), prog.Addi(6, 0, 1), prog.Jalr(0, 1, 0)}}, {0x3000, []uint32{prog.Nop}}}, 0x2000},
		{[]prog.Seg{{0x1000, []uint32{prog.Addi(1, 0, 1), prog.Addi(2, 0, 2), prog.Addi(3, 0, 3), prog.Addi(4, 0, 4)}}}, 0x1008},
		{[]prog.Seg{{0x1000, []uint32{prog.Bne(1, 2, 12), prog.Addi(1, 1, 1), prog.Addi(2, 2, 1), prog.Add(3, 1, 2), prog.Sw(3, 4, 0), prog.Lw(5, 4, 0), prog.Ecall}}}, 0x1000},
	}
	for _, mc := range multi {
		if s, err := newC07Sys(mc.segs, mc.entry); err == nil {
			out = append(out, s)
		} else {
			r.Note("multi-block code rejected: %v", err)
		}
	}
	return out
}

func init() {
	checks["C07"] = eng.Check{
		Hist:        true,
		Rule:        "explicit-state BFS to closure (state = block order + per-block instruction order) on every single-block code of <=3 (thorough 4) instructions over a 14-word alphabet built around the dependency rules, every (quick: a third of the) single-block code of 2..3 synthetic instructions from the 21-instruction alphabet of C06 (multi-store, multi-write, multi-space effects; byte lengths 2, 4 and 6) and 4 multi-block codes (branches, gaps, mid-code entry, blocks of different sizes); menu in every state: Block.Move(i,j) for all i,j in [-1,n] of every block, Code.Move(i,j) for all i,j in [-1,nb]; successor = fresh real code + replay of the shortest path + the operation. Oracles: admission iff positions valid and target within the bounds reported before the move; rejected => full snapshot unchanged; accepted => model rotation; per state: own bounds, contiguous addresses, indices, Block.Address/Code.Address lookups incl. begin-1/mid/end, every dependency edge (hook) ordered; equal orders reached by different histories must have equal snapshots. Second pass per code: a depth-3 (thorough 4) DFS tour over accepted, rejected and undo moves on ONE long-lived instance (never rebuilt) with the same oracles after every operation, so that state hidden from the snapshot (caches) accumulated over a history is exercised. Non-trivial = code with at least 2 reachable states.",
		Assumptions: []string{"dependency edges read through the add-only hook deps.VerifEdges"},
		Run: func(r *eng.Run) {
			codes := c07Codes(r)
			r.Note("codes=%d", len(codes))
			r.Par(len(codes), func(i int) {
				before := 0
				_ = before
				f := c07Explore(r, codes[i], 5000)
				r.Eval(1)
				if f != nil {
					r.Report(f)
					r.Outcome(f.Sig)
					return
				}
				tourDepth := 3
				if !r.Quick() {
					tourDepth = 4
				}
				if f := c07Tour(r, codes[i], tourDepth, nil); f != nil {
					r.Report(f)
					r.Outcome(f.Sig)
				}
			})
			r.Sample(c07Case{Segs: codes[len(codes)-1].segs, Entry: codes[len(codes)-1].entry, Path: []c07Op{{Kind: "block", From: 0, To: 1}}, Op: &c07Op{Kind: "ins", Block: 0, From: 1, To: 0}})
			r.Nontrivial(int(0))
		},
		Replay: c07Replay,
	}
}
