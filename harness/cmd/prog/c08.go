package main

import (
	"encoding/json"
	"fmt"
	"math/big"
	"sort"
	"strings"

	"mltwist/internal/deps"
	"mltwist/internal/parser"
	"mltwist/pkg/expr"
	"mltwist/pkg/model"
	"mltwist/verifh/eng"
	"mltwist/verifh/ir"
	"mltwist/verifh/prog"
	"mltwist/verifh/rvref"
)

// C08 — basic blocks partition the code exactly where control flow requires.

type c08Ins struct {
	Addr uint64 `json:"addr"`
	Len  int    `json:"len"`
	Kind string `json:"kind"` // plain | jmp | cond | next | ind | cond2 | two
	T1   uint64 `json:"t1,omitempty"`
	T2   uint64 `json:"t2,omitempty"`
}

type c08Case struct {
	Ins     []c08Ins `json:"instructions"` // in input order
	Entry   uint64   `json:"entry"`
	Words   []uint32 `json:"words,omitempty"` // real RISC-V variant
	Base    uint64   `json:"base,omitempty"`
	Reverse bool     `json:"reverse,omitempty"`
	// IPW: width in bytes of the instruction-pointer values of the synthetic
	// instructions (0 = 8); RV32: the real words are lifted by the rv32 front end,
	// whose instruction-pointer values are 4 bytes wide.
	IPW  int  `json:"ipw,omitempty"`
	RV32 bool `json:"rv32,omitempty"`
}

type c08Details struct{ s string }

func (d c08Details) Name() string   { return d.s }
func (d c08Details) String() string { return d.s }

func (i c08Ins) build(ipw int) parser.Instruction {
	if ipw == 0 {
		ipw = 8
	}
	W := expr.Width(ipw)
	c8 := func(a uint64) expr.Expr { return ir.ConstU(a, W) }
	next := i.Addr + uint64(i.Len)
	var effs []expr.Effect
	r1, r2 := expr.NewRegLoad("r1", W), expr.NewRegLoad("r2", W)
	switch i.Kind {
	case "plain":
		effs = []expr.Effect{expr.NewRegStore(c8(1), "x1", W)}
	case "jmp":
		effs = []expr.Effect{expr.NewRegStore(c8(i.T1), expr.IPKey, W)}
	case "cond":
		effs = []expr.Effect{expr.NewRegStore(expr.NewLess(r1, r2, c8(i.T1), c8(next), W), expr.IPKey, W)}
	case "next":
		effs = []expr.Effect{expr.NewRegStore(c8(next), expr.IPKey, W)}
	case "ind":
		effs = []expr.Effect{expr.NewRegStore(expr.NewBinary(expr.Add, r1, c8(4), W), expr.IPKey, W)}
	case "cond2":
		effs = []expr.Effect{expr.NewRegStore(expr.NewLess(r1, r2, c8(i.T1), c8(i.T2), W), expr.IPKey, W)}
	case "two":
		effs = []expr.Effect{expr.NewRegStore(r1, "x1", W), expr.NewRegStore(expr.NewBinary(expr.Add, c8(i.T1-1), expr.One, W), expr.IPKey, W)}
	case "nestwide":
		// a conditional whose branch is a WIDER conditional: its constants carry a byte above the
		// instruction-pointer width, which the outer conditional cuts off
		hi := new(big.Int).Lsh(big.NewInt(0x5a), uint(ipw)*8)
		wide := func(a uint64) expr.Expr { return ir.Const(new(big.Int).Or(new(big.Int).SetUint64(a), hi), W+1) }
		rw1, rw2 := expr.NewRegLoad("r3", W+1), expr.NewRegLoad("r4", W+1)
		effs = []expr.Effect{expr.NewRegStore(expr.NewLess(r1, r2, expr.NewLess(rw1, rw2, wide(i.T1), wide(i.T2), W+1), c8(next), W), expr.IPKey, W)}
	case "symfirst": // one instruction with a symbolic AND a constant target, the symbolic one first
		effs = []expr.Effect{expr.NewRegStore(expr.NewLess(r1, r2, expr.NewBinary(expr.Add, r1, c8(4), W), c8(i.T1), W), expr.IPKey, W)}
	case "symlast":
		effs = []expr.Effect{expr.NewRegStore(expr.NewLess(r1, r2, c8(i.T1), expr.NewBinary(expr.Add, r1, c8(4), W), W), expr.IPKey, W)}
	case "condadd": // pc-relative form: IP := addr + (r1 < r2 ? T1-addr : len): the conditional sits below an addition
		effs = []expr.Effect{expr.NewRegStore(expr.NewBinary(expr.Add, c8(i.Addr),
			expr.NewLess(r1, r2, c8(i.T1-i.Addr), c8(uint64(i.Len)), W), W), expr.IPKey, W)}
	}
	return parser.Instruction{Addr: model.Addr(i.Addr), Bytes: make([]byte, i.Len), Effects: effs,
		Details: c08Details{fmt.Sprintf("%s@%x", i.Kind, i.Addr)}}
}

// targets returns (constant real targets, hasRealTarget, ambiguous next-only constant targets).
func (i c08Ins) targets() (consts []uint64, real bool) {
	next := i.Addr + uint64(i.Len)
	add := func(t uint64) {
		if t != next {
			consts = append(consts, t)
			real = true
		}
	}
	switch i.Kind {
	case "jmp", "two":
		add(i.T1)
	case "cond", "condadd":
		add(i.T1)
	case "cond2", "nestwide":
		add(i.T1)
		add(i.T2)
	case "ind":
		real = true
	case "symfirst", "symlast":
		add(i.T1)
		real = true
	}
	return
}

// c08Expect computes the expected partition (list of blocks as address lists) or failure.
func c08Expect(ins []c08Ins, entry uint64) (blocks [][]uint64, fail string) {
	s := append([]c08Ins{}, ins...)
	sort.Slice(s, func(i, j int) bool { return s[i].Addr < s[j].Addr })
	starts := map[uint64]bool{}
	for _, i := range s {
		starts[i.Addr] = true
	}
	if !starts[entry] {
		return nil, fmt.Sprintf("entry %#x is not an instruction start", entry)
	}
	leader := map[uint64]bool{entry: true}
	for k, i := range s {
		if k == 0 || s[k-1].Addr+uint64(s[k-1].Len) != i.Addr {
			leader[i.Addr] = true
		}
		cs, real := i.targets()
		for _, t := range cs {
			if !starts[t] {
				return nil, fmt.Sprintf("jump target %#x of %#x is not an instruction start", t, i.Addr)
			}
			leader[t] = true
		}
		if real && k+1 < len(s) {
			leader[s[k+1].Addr] = true
		}
	}
	for _, i := range s {
		if leader[i.Addr] {
			blocks = append(blocks, nil)
		}
		blocks[len(blocks)-1] = append(blocks[len(blocks)-1], i.Addr)
	}
	return blocks, ""
}

func c08Check(c c08Case, pins []parser.Instruction, abs []c08Ins) *eng.Fail {
	var code *deps.Code
	var err error
	p, stack := eng.Catch(func() { code, err = deps.NewCode(model.Addr(c.Entry), pins) })
	if p != nil {
		return &eng.Fail{Sig: "NewCode panic " + eng.PanicSite(stack), What: fmt.Sprintf("NewCode panics: %v", p), Case: c}
	}
	exp, fail := c08Expect(abs, c.Entry)
	if (err != nil) != (fail != "") {
		if err != nil {
			return &eng.Fail{Sig: "NewCode fails-on-valid-code", What: fmt.Sprintf("NewCode fails (%v) although entry and all constant targets are instruction starts", err), Case: c}
		}
		return &eng.Fail{Sig: "NewCode accepts-invalid-code", What: "NewCode succeeds although " + fail, Case: c}
	}
	if err != nil {
		return nil
	}
	var got [][]uint64
	for _, b := range code.Blocks() {
		var l []uint64
		for _, in := range b.Instructions() {
			l = append(l, uint64(in.OrigAddr()))
		}
		got = append(got, l)
	}
	if fmt.Sprint(got) != fmt.Sprint(exp) {
		cls := "extra-split"
		if len(got) < len(exp) {
			cls = "missing-split"
		} else if len(got) == len(exp) {
			cls = "wrong-split"
		}
		return &eng.Fail{Sig: "partition " + cls, What: fmt.Sprintf("blocks %x, expected %x", got, exp), Case: c, Expected: fmt.Sprintf("%x", exp), Observed: fmt.Sprintf("%x", got)}
	}
	if uint64(code.Entrypoint()) != c.Entry {
		return &eng.Fail{Sig: "entrypoint", What: "Entrypoint() differs", Case: c}
	}
	return nil
}

func c08Run(c c08Case) *eng.Fail {
	if c.Words != nil {
		// real RISC-V pass: derive the abstract description from the reference decoder
		front, ref := parser.Parser(prog.Parser64), prog.Ref64
		if c.RV32 {
			front, ref = prog.Parser32, prog.Ref32
		}
		pins, err := prog.InstructionsWith([]prog.Seg{{Base: c.Base, Words: c.Words}}, front)
		if err != nil {
			return nil
		}
		var abs []c08Ins
		for k, w := range c.Words {
			a := c.Base + uint64(4*k)
			ai := c08Ins{Addr: a, Len: 4, Kind: "plain"}
			switch n := rvref.DecodeFast(w, ref); rvref.Format(n) {
			case "B":
				ai.Kind, ai.T1 = "cond", a+uint64(rvref.ImmB(w))
			case "J":
				ai.Kind, ai.T1 = "jmp", a+uint64(rvref.ImmJ(w))
			default:
				if n == "jalr" {
					ai.Kind = "ind"
				}
			}
			abs = append(abs, ai)
		}
		if c.Reverse {
			for i, j := 0, len(pins)-1; i < j; i, j = i+1, j-1 {
				pins[i], pins[j] = pins[j], pins[i]
			}
		}
		return c08Check(c, pins, abs)
	}
	pins := make([]parser.Instruction, len(c.Ins))
	for i, in := range c.Ins {
		pins[i] = in.build(c.IPW)
	}
	return c08Check(c, pins, c.Ins)
}

func init() {
	checks["C08"] = eng.Check{
		Rule:        "deps.NewCode on synthetic instruction sequences: <=3 (thorough 4) instructions of length 2 or 4 in 3 length patterns x every gap pattern, each instruction of one of 11 kinds (plain; a conditional whose branch is a wider conditional with constants reaching above the instruction-pointer width; IP:=Less(r1,r2,register+4,const T) and the mirrored form, i.e. a symbolic and a constant target in one instruction; IP:=addr+Less(r1,r2,T-addr,len) i.e. a conditional below an addition; IP:=const T; IP:=Less(r1,r2,T,next); IP:=next; IP:=register+4; IP:=Less(..,T1,T2); two effects with a foldable target) with T over {every instruction start, a mid-instruction address, a gap/end address, far outside}, entry over the same address alphabet, sorted, reversed and (from 3 instructions on) rotated input order, codes in two areas 2^63 and more apart (jumps and entries in and across both), two long codes of 16 and 40 instructions in sorted / reversed / every rotated / interleaved order, codes of <=2 instructions also beginning at address 0, with 8-byte and (quick: for <=2 instructions and a third of the longer sequences) 4-byte instruction-pointer values, plus the empty sequence; and on real RISC-V sequences of <=4 words over {addi, beq +8/-4/+4, jal x0 +8/+4/-8, jalr, bne +12} (targets from the reference decoder), lifted by the rv64 and by the rv32 front end. Oracle: failure iff entry or a constant real target is not an instruction start; otherwise blocks = maximal runs between leaders (first, after gap, after an instruction with a real target, each constant target, entry). Non-trivial = code that builds.",
		Assumptions: []string{"a constant target equal to the instruction's own end is not a jump (as the property's 'real jump target' says)"},
		Run: func(r *eng.Run) {
			do := func(c c08Case) {
				f := c08Run(c)
				r.Eval(1)
				if f != nil {
					r.Report(f)
					r.Outcome(f.Sig)
				}
			}
			// empty sequence
			do(c08Case{Ins: []c08Ins{}, Entry: 0x100})
			maxN := 3
			if !r.Quick() {
				maxN = 4
			}
			lenPats := [][]int{{4, 4, 4, 4}, {2, 4, 2, 4}, {4, 2, 4, 2}}
			type job struct {
				n    int
				lens []int
				gaps int
				base uint64
			}
			var jobs []job
			for n := 1; n <= maxN; n++ {
				for _, lp := range lenPats {
					for g := 0; g < 1<<(n-1); g++ {
						jobs = append(jobs, job{n, lp[:n], g, 0x100})
						if n <= 2 {
							// the same code beginning at address 0 (a legal address, not "unset")
							jobs = append(jobs, job{n, lp[:n], g, 0})
						}
					}
				}
			}
			r.Par(len(jobs), func(ji int) {
				j := jobs[ji]
				addrs := make([]uint64, j.n)
				a := j.base
				gapAddr := uint64(0)
				for k := 0; k < j.n; k++ {
					if k > 0 && j.gaps>>(k-1)&1 == 1 {
						gapAddr = a
						a += 2
					}
					addrs[k] = a
					a += uint64(j.lens[k])
				}
				end := a
				ts := append([]uint64{}, addrs...)
				ts = append(ts, addrs[j.n-1]+1, end, 0x9000)
				if gapAddr != 0 {
					ts = append(ts, gapAddr)
				}
				var kinds [][]c08Ins
				for k := 0; k < j.n; k++ {
					base := c08Ins{Addr: addrs[k], Len: j.lens[k]}
					var ks []c08Ins
					mk := func(kind string, t1, t2 uint64) {
						x := base
						x.Kind, x.T1, x.T2 = kind, t1, t2
						ks = append(ks, x)
					}
					mk("plain", 0, 0)
					mk("next", 0, 0)
					mk("ind", 0, 0)
					for _, t := range ts {
						mk("jmp", t, 0)
						mk("cond", t, 0)
					}
					for _, t := range ts[:4] {
						mk("condadd", t, 0)
					}
					for _, t := range ts {
						mk("symfirst", t, 0)
					}
					mk("symlast", ts[1%len(ts)], 0)
					mk("symlast", ts[len(ts)-2], 0)
					for _, t := range ts[:3] {
						if t != 0 {
							mk("two", t, 0)
						}
					}
					mk("nestwide", ts[0], ts[len(ts)-1])
					mk("nestwide", base.Addr+uint64(base.Len), addrs[j.n-1])
					mk("cond2", ts[0], ts[len(ts)-1])
					mk("cond2", addrs[j.n-1], addrs[0])
					mk("cond2", base.Addr+uint64(base.Len), addrs[0])
					kinds = append(kinds, ks)
				}
				idx := make([]int, j.n)
				narrowN := 0
				for {
					ins := make([]c08Ins, j.n)
					nonPlain := 0
					for k := range ins {
						ins[k] = kinds[k][idx[k]]
						if ins[k].Kind != "plain" {
							nonPlain++
						}
					}
					if j.n < 4 || nonPlain <= 2 {
						for _, e := range ts {
							do(c08Case{Ins: ins, Entry: e})
							rev := make([]c08Ins, j.n)
							for k := range ins {
								rev[j.n-1-k] = ins[k]
							}
							do(c08Case{Ins: rev, Entry: e})
							if j.n >= 3 && (!r.Quick() || narrowN%2 == 0) {
								// neither sorted nor reversed: the last instruction handed in first
								rot := append([]c08Ins{ins[j.n-1]}, ins[:j.n-1]...)
								do(c08Case{Ins: rot, Entry: e})
							}
							// the same code with 4-byte instruction-pointer values (what a 32-bit front end
							// produces); quick: sequences of <=2 instructions and every 3rd longer one
							if narrowN++; j.n <= 2 || !r.Quick() || narrowN%3 == 0 {
								do(c08Case{Ins: ins, Entry: e, IPW: 4})
							}
							if exp, _ := c08Expect(ins, e); exp != nil {
								r.Nontrivial(1)
							}
						}
					}
					k := 0
					for k < j.n {
						idx[k]++
						if idx[k] < len(kinds[k]) {
							break
						}
						idx[k] = 0
						k++
					}
					if k == j.n {
						break
					}
				}
			})
			// two areas of code far apart (2^63 and more: the distance between two addresses does not
			// fit a signed word), with jumps and entry points in and across both areas
			for _, hi := range []uint64{1 << 63, 0xffffffff80000000, 1<<63 + 0x100, 0x7fffffffffffff00} {
				lo := uint64(0x100)
				if hi == 1<<63+0x100 {
					lo = 0x80
				}
				four := []c08Ins{{Addr: lo, Len: 4, Kind: "plain"}, {Addr: lo + 4, Len: 4, Kind: "plain"}, {Addr: hi, Len: 4, Kind: "plain"}, {Addr: hi + 4, Len: 2, Kind: "plain"}}
				targets := []uint64{lo, lo + 4, hi, hi + 4, hi + 1, lo + 8}
				for k := range four {
					for _, kind := range []string{"plain", "jmp", "cond", "cond2"} {
						for _, t := range targets {
							ins := append([]c08Ins{}, four...)
							ins[k].Kind, ins[k].T1, ins[k].T2 = kind, t, hi+4
							if kind == "plain" && t != lo {
								continue
							}
							for _, e := range targets {
								do(c08Case{Ins: ins, Entry: e})
								do(c08Case{Ins: []c08Ins{ins[3], ins[0], ins[2], ins[1]}, Entry: e})
							}
						}
					}
				}
			}
			// long codes (16 and 40 instructions: beyond the size up to which library sorts use
			// insertion sort) handed in in many orders: sorted, reversed, every rotation, even
			// positions before odd ones, the second half first with each half reversed
			for _, n := range []int{16, 40} {
				var long []c08Ins
				a := uint64(0x100)
				for k := 0; k < n; k++ {
					if k == 6 || k == n-3 {
						a += 2 // a gap
					}
					in := c08Ins{Addr: a, Len: 4 - 2*(k%2), Kind: "plain"}
					a += uint64(in.Len)
					long = append(long, in)
				}
				long[2].Kind, long[2].T1 = "cond", long[9].Addr
				long[4].Kind, long[4].T1 = "jmp", long[1].Addr
				long[11].Kind, long[11].T1, long[11].T2 = "cond2", long[n-1].Addr, long[3].Addr
				long[n-2].Kind = "ind"
				perm := func(f func(i int) int) []c08Ins {
					out := make([]c08Ins, n)
					for i := range out {
						out[i] = long[f(i)]
					}
					return out
				}
				orders := [][]c08Ins{long, perm(func(i int) int { return n - 1 - i }),
					perm(func(i int) int {
						if i < (n+1)/2 {
							return 2 * i
						}
						return 2*(i-(n+1)/2) + 1
					}),
					perm(func(i int) int {
						if i < n/2 {
							return n - 1 - i
						}
						return n - 1 - i
					}),
					perm(func(i int) int {
						if i < n/2 {
							return n/2 + (n/2 - 1 - i)
						}
						return n - 1 - i
					})}
				for k := 1; k < n; k++ {
					k := k
					orders = append(orders, perm(func(i int) int { return (i + k) % n }))
				}
				for _, o := range orders {
					for _, e := range []uint64{long[0].Addr, long[9].Addr, long[n-1].Addr, long[5].Addr + 1} {
						do(c08Case{Ins: o, Entry: e})
						do(c08Case{Ins: o, Entry: e, IPW: 4})
					}
				}
			}
			// real RISC-V words
			alpha := []uint32{prog.Addi(1, 1, 1), prog.Beq(1, 2, 8), prog.Beq(1, 2, -4), prog.Beq(0, 0, 4), prog.Jal(0, 8), prog.Jal(1, 4), prog.Jal(0, -8), prog.Jalr(0, 1, 0), prog.Bne(1, 2, 12)}
			var seqs [][]uint32
			var rec func(ws []uint32)
			rec = func(ws []uint32) {
				if len(ws) > 0 {
					seqs = append(seqs, append([]uint32{}, ws...))
				}
				if len(ws) < 4 {
					for _, w := range alpha {
						rec(append(ws[:len(ws):len(ws)], w))
					}
				}
			}
			rec(nil)
			r.Note("real RISC-V sequences=%d", len(seqs))
			r.Par(len(seqs), func(i int) {
				ws := seqs[i]
				for e := 0; e <= len(ws); e++ {
					do(c08Case{Words: ws, Base: 0x1000, Entry: 0x1000 + uint64(4*e)})
					do(c08Case{Words: ws, Base: 0x1000, Entry: 0x1000 + uint64(4*e), Reverse: true})
					do(c08Case{Words: ws, Base: 0x1000, Entry: 0x1000 + uint64(4*e), RV32: true})
				}
			})
			r.Sample(c08Case{Ins: []c08Ins{{Addr: 0x100, Len: 4, Kind: "cond", T1: 0x108}, {Addr: 0x104, Len: 4, Kind: "plain"}, {Addr: 0x108, Len: 4, Kind: "jmp", T1: 0x100}}, Entry: 0x104})
			r.Sample(c08Case{Words: []uint32{prog.Addi(1, 1, 1), prog.Beq(1, 2, 8), prog.Jal(1, 4), prog.Jalr(0, 1, 0)}, Base: 0x1000, Entry: 0x1000})
			_ = strings.Join
		},
		Replay: func(r *eng.Run, raw json.RawMessage) *eng.Fail {
			var c c08Case
			if err := json.Unmarshal(raw, &c); err != nil {
				panic(err)
			}
			return c08Run(c)
		},
	}
}
