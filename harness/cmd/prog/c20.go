package main

import (
	"encoding/json"
	"fmt"
	"os"
	"path/filepath"
	"runtime"
	"sort"
	"sync/atomic"

	"mltwist/internal/elf"
	"mltwist/pkg/model"
	"mltwist/verifh/elfgen"
	"mltwist/verifh/eng"
)

// C20 — ELF images are loaded faithfully.

type c20Case struct {
	File elfgen.File `json:"file"`
}

type span struct {
	begin uint64
	data  []byte
}

func overlapSpans(ss []span) bool {
	s := append([]span{}, ss...)
	sort.Slice(s, func(i, j int) bool { return s[i].begin < s[j].begin })
	for i := 0; i+1 < len(s); i++ {
		if s[i+1].begin < s[i].begin+uint64(len(s[i].data)) {
			return true
		}
	}
	return false
}

var c20Dir string
var c20Seq atomic.Int64

func c20Check(c c20Case) (*eng.Fail, string) {
	path := filepath.Join(c20Dir, fmt.Sprintf("f%d.elf", c20Seq.Add(1)))
	if err := os.WriteFile(path, c.File.Bytes(), 0o644); err != nil {
		panic(err)
	}
	defer os.Remove(path)
	f := c.File
	var ps *elf.Parser
	var err error
	p, stack := eng.Catch(func() { ps, err = elf.NewParser(path) })
	if p != nil {
		return &eng.Fail{Sig: "NewParser panic " + eng.PanicSite(stack), What: fmt.Sprintf("NewParser panics: %v", p), Case: c}, ""
	}
	if ps != nil {
		defer func() { eng.Catch(func() { ps.Close() }) }()
	}
	mustReject := f.Type != elfgen.ET_EXEC && f.Type != elfgen.ET_DYN
	if err != nil {
		return nil, "rejected-at-open"
	}
	if mustReject {
		return &eng.Fail{Sig: fmt.Sprintf("accepts file type %d", f.Type), What: fmt.Sprintf("a file of ELF type %d (not executable/shared) is accepted", f.Type), Case: c}, ""
	}
	if uint64(ps.Entrypoint()) != f.Entry {
		return &eng.Fail{Sig: "entrypoint", What: fmt.Sprintf("Entrypoint %#x, file says %#x", ps.Entrypoint(), f.Entry), Case: c}, ""
	}
	// expected code image
	memUndecided := false
	var code []span
	for _, s := range f.Sections {
		if s.Type == elfgen.SHT_PROGBITS && len(s.Data) > 0 && s.Addr != 0 && s.Flags&elfgen.SHF_EXECINSTR != 0 {
			code = append(code, span{s.Addr, s.Data})
		}
	}
	var mem []span
	fileBytes := f.Bytes()
	for pi, pr := range f.Progs {
		if pr.Type != elfgen.PT_LOAD {
			continue
		}
		d := append([]byte{}, pr.Data...)
		if pr.Claim > 0 {
			// the header claims more file bytes than the generator placed for it:
			// the segment holds whatever the file has there, up to its end
			d = elfgen.ProgFileBytes(fileBytes, pi)
			if pr.Memsz < uint64(len(pr.Data))+pr.Claim {
				memUndecided = true // in-memory size below the file size: not decided by the property
			}
		}
		if pr.Memsz > uint64(len(d)) {
			d = append(d, make([]byte, pr.Memsz-uint64(len(d)))...)
		}
		mem = append(mem, span{pr.Vaddr, d})
	}
	outcome := ""
	for _, part := range []struct {
		name string
		get  func() (*elf.Memory, error)
		exp  []span
	}{{"MachineCode", ps.MachineCode, code}, {"Memory", ps.Memory, mem}} {
		var m *elf.Memory
		var err error
		p, stack := eng.Catch(func() { m, err = part.get() })
		if p != nil {
			return &eng.Fail{Sig: part.name + " panic " + eng.PanicSite(stack), What: fmt.Sprintf("%s panics: %v", part.name, p), Case: c}, ""
		}
		if err != nil {
			outcome += part.name + "-error "
			continue
		}
		outcome += part.name + "-ok "
		if part.name == "Memory" && memUndecided {
			continue
		}
		if overlapSpans(part.exp) {
			return &eng.Fail{Sig: part.name + " accepts-overlap", What: fmt.Sprintf("%s succeeds although its blocks overlap: %s", part.name, f), Case: c}, ""
		}
		// blocks: sorted, non-overlapping; non-empty ones equal the expected spans
		exp := append([]span{}, part.exp...)
		sort.Slice(exp, func(i, j int) bool { return exp[i].begin < exp[j].begin })
		var got []span
		var prevEnd uint64
		for i, b := range m.Blocks {
			if i > 0 && uint64(b.Begin()) < prevEnd {
				return &eng.Fail{Sig: part.name + " blocks-unsorted-or-overlapping", What: fmt.Sprintf("%s block %d begins at %#x before previous end %#x", part.name, i, b.Begin(), prevEnd), Case: c}, ""
			}
			prevEnd = uint64(b.End())
			if uint64(b.End())-uint64(b.Begin()) != uint64(b.Len()) || len(b.Bytes()) != b.Len() {
				return &eng.Fail{Sig: part.name + " block-length", What: "block length inconsistent", Case: c}, ""
			}
			if b.Len() > 0 {
				got = append(got, span{uint64(b.Begin()), b.Bytes()})
			}
		}
		var expNE []span
		for _, e := range exp {
			if len(e.data) > 0 {
				expNE = append(expNE, e)
			}
		}
		if fmt.Sprintf("%x", got) != fmt.Sprintf("%x", expNE) {
			return &eng.Fail{Sig: part.name + " content", What: fmt.Sprintf("%s yields blocks %x, file describes %x", part.name, got, expNE), Case: c}, ""
		}
		// address lookup over the universe, ascending and then descending (a lookup must not depend on the previous one)
		var order []uint64
		for a := uint64(0xff8); a <= 0x1020; a++ {
			order = append(order, a)
		}
		for a := uint64(0x1020); a >= 0xff8; a -= 3 {
			order = append(order, a)
		}
		atTop := false
		for _, e := range expNE {
			if e.begin+uint64(len(e.data)) == 0 {
				atTop = true // a block whose last byte is the last byte of the address space
			}
		}
		if atTop {
			for a := ^uint64(0) - 11; a != 0; a++ {
				order = append(order, a)
			}
		}
		for _, a := range order {
			var want []byte
			for _, e := range expNE {
				if a >= e.begin && a < e.begin+uint64(len(e.data)) {
					want = e.data[a-e.begin:]
				}
			}
			var g []byte
			p, stack := eng.Catch(func() { g = m.Address(model.Addr(a)) })
			if p != nil {
				return &eng.Fail{Sig: part.name + " Address panic " + eng.PanicSite(stack), What: fmt.Sprintf("Address(%#x) panics: %v", a, p), Case: c}, ""
			}
			if fmt.Sprintf("%x", g) != fmt.Sprintf("%x", want) || (g == nil) != (want == nil) {
				tag := ""
				if atTop && a > 1<<63 {
					tag = " [block ends at 2^64]"
				}
				return &eng.Fail{Sig: part.name + " Address lookup" + tag, What: fmt.Sprintf("%s.Address(%#x) = %x, expected %x", part.name, a, g, want), Case: c}, ""
			}
		}
	}
	return nil, outcome
}

func init() {
	checks["C20"] = eng.Check{
		Rule:        "ELF64-LE files written by the harness: type in {NONE, REL, EXEC, DYN, CORE} x <=2 (thorough 3) user sections (type PROGBITS/NOBITS/NOTE x flags {0, ALLOC, ALLOC|EXEC} x addr {0, 0x1000, 0x1004, 0x1008} x size {0,4,8}) x <=2 (thorough 3) program headers (type LOAD/NOTE x vaddr {0x1000,0x1004,0x1008} x filesz {0,4,8} x memsz {0,4,8,12} incl. memsz<filesz; plus LOAD headers that claim 4 bytes or 64 KiB more file bytes than were placed for them, i.e. a file extent reaching into the following file content or past the end of the file; plus LOAD headers whose physical address differs from the virtual one) — all combinations incl. overlapping and adjacent ones, every section list also in a header table without the customary null entry — through elf.NewParser/MachineCode/Memory/Entrypoint/Address. Oracle from the generator's description: REL/CORE/NONE and any overlap must be rejected; whatever loads must equal the description (code = qualifying sections as sorted blocks, adjacent ones not merged; memory = file bytes then zeros; Address(a) for every a in 0xff8..0x1020 = tail of its block or nil); plus a code section and a segment of 4 and 8 bytes ending exactly at 2^64 with lookups over the last 12 addresses; plus a file of 20 executable sections and 20 segments (adjacent and apart) in sorted, reversed, interleaved and rotated table order. Non-trivial = file for which both images load.",
		Assumptions: []string{"errors are always acceptable outcomes (the property allows 'reports an error'); crashes are not", "files are well-formed ELF64 containers (corruption is C26's domain)"},
		Run: func(r *eng.Run) {
			dir, err := os.MkdirTemp("", "vc20")
			if err != nil {
				panic(err)
			}
			c20Dir = dir
			defer os.RemoveAll(dir)
			mkdata := func(n int, tag byte) []byte {
				d := make([]byte, n)
				for i := range d {
					d[i] = tag + byte(i)
				}
				return d
			}
			var secs []elfgen.Section
			for _, ty := range []uint32{elfgen.SHT_PROGBITS, elfgen.SHT_NOBITS, elfgen.SHT_NOTE} {
				for _, fl := range []uint64{0, elfgen.SHF_ALLOC, elfgen.SHF_ALLOC | elfgen.SHF_EXECINSTR} {
					for _, ad := range []uint64{0, 0x1000, 0x1004, 0x1008} {
						for _, sz := range []int{0, 4, 8} {
							if ty != elfgen.SHT_PROGBITS && (fl != elfgen.SHF_ALLOC|elfgen.SHF_EXECINSTR || sz == 0) {
								continue // non-PROGBITS: only the most tempting variant
							}
							secs = append(secs, elfgen.Section{Type: ty, Flags: fl, Addr: ad, Data: mkdata(sz, 0x10+byte(ad)), Size: uint64(sz)})
						}
					}
				}
			}
			var progs []elfgen.Prog
			for _, ty := range []uint32{elfgen.PT_LOAD, elfgen.PT_NOTE} {
				for _, va := range []uint64{0x1000, 0x1004, 0x1008} {
					for _, fs := range []int{0, 4, 8} {
						for _, ms := range []uint64{0, 4, 8, 12} {
							if ty == elfgen.PT_NOTE && (fs != 4 || ms != 4) {
								continue
							}
							progs = append(progs, elfgen.Prog{Type: ty, Vaddr: va, Data: mkdata(fs, 0x80+byte(va)), Memsz: ms})
						}
					}
				}
			}
			// program headers whose file extent reaches into whatever follows in the file (claim 4) or
			// past its end (claim 64 KiB): the segment is the bytes the file has there, then zeros
			for _, va := range []uint64{0x1000, 0x1008} {
				for _, fs := range []int{0, 4} {
					for _, claim := range []uint64{4, 1 << 16} {
						for _, extra := range []uint64{0, 4} {
							progs = append(progs, elfgen.Prog{Type: elfgen.PT_LOAD, Vaddr: va, Data: mkdata(fs, 0x80+byte(va)), Memsz: uint64(fs) + claim + extra, Claim: claim})
						}
					}
				}
			}
			// segments whose physical (load) address differs from the virtual one: only the virtual
			// address places the segment
			for _, va := range []uint64{0x1000, 0x1004} {
				for _, d := range []uint64{4, 0x10000, ^uint64(0) - 3} {
					progs = append(progs, elfgen.Prog{Type: elfgen.PT_LOAD, Vaddr: va, Data: mkdata(4, 0x80+byte(va)), Memsz: 8, PaddrDelta: d})
				}
			}
			r.Note("section alphabet=%d program-header alphabet=%d", len(secs), len(progs))
			types := []uint16{elfgen.ET_EXEC, elfgen.ET_DYN, elfgen.ET_NONE, elfgen.ET_REL, elfgen.ET_CORE}
			// section lists
			var secLists [][]elfgen.Section
			secLists = append(secLists, nil)
			for i := range secs {
				secLists = append(secLists, []elfgen.Section{secs[i]})
			}
			for i := range secs {
				for j := range secs {
					secLists = append(secLists, []elfgen.Section{secs[i], secs[j]})
				}
			}
			var progLists [][]elfgen.Prog
			progLists = append(progLists, nil)
			for i := range progs {
				progLists = append(progLists, []elfgen.Prog{progs[i]})
			}
			for i := range progs {
				for j := range progs {
					progLists = append(progLists, []elfgen.Prog{progs[i], progs[j]})
				}
			}
			r.Note("section lists=%d program-header lists=%d", len(secLists), len(progLists))
			do := func(f elfgen.File) {
				fl, out := c20Check(c20Case{f})
				r.Eval(1)
				if out == "MachineCode-ok Memory-ok " {
					r.Nontrivial(1)
				}
				if fl != nil {
					r.Report(fl)
					r.Outcome(fl.Sig)
				} else {
					r.Outcome(out)
				}
			}
			fixedProgs := [][]elfgen.Prog{{{Type: elfgen.PT_LOAD, Vaddr: 0x1000, Data: mkdata(8, 0x80), Memsz: 12}}, nil}
			fixedSecs := [][]elfgen.Section{{{Type: elfgen.SHT_PROGBITS, Flags: 6, Addr: 0x1000, Data: mkdata(8, 0x10), Size: 8}}, nil}
			var n atomic.Int64
			gc := func() {
				if n.Add(1)%2000 == 0 {
					runtime.GC() // finalizers close files of rejected parsers
				}
			}
			// (many) 20 executable sections and 20 segments (more than a library sort handles by
			// insertion; some adjacent, some apart) in sorted, reversed, interleaved and rotated table order
			{
				const nm = 20
				var ms []elfgen.Section
				var mp []elfgen.Prog
				for i := 0; i < nm; i++ {
					a := 0x1000 + uint64(i)*8
					if i%3 == 2 {
						a += 0x100 // apart from its predecessor
					}
					ms = append(ms, elfgen.Section{Type: elfgen.SHT_PROGBITS, Flags: 6, Addr: a, Data: mkdata(4+4*(i%2), 0x10+byte(i)), Size: uint64(4 + 4*(i%2))})
					mp = append(mp, elfgen.Prog{Type: elfgen.PT_LOAD, Vaddr: a, Data: mkdata(4, 0x80+byte(i)), Memsz: uint64(4 + 4*(i%2))})
				}
				perms := []func(i int) int{
					func(i int) int { return i },
					func(i int) int { return nm - 1 - i },
					func(i int) int {
						if i < nm/2 {
							return 2 * i
						}
						return 2*(i-nm/2) + 1
					},
				}
				for k := 1; k < nm; k += 3 {
					k := k
					perms = append(perms, func(i int) int { return (i + k) % nm })
				}
				for _, pf := range perms {
					f := elfgen.File{Type: elfgen.ET_EXEC, Entry: 0x1000}
					for i := 0; i < nm; i++ {
						f.Sections = append(f.Sections, ms[pf(i)])
						f.Progs = append(f.Progs, mp[pf(nm-1-i)])
					}
					do(f)
				}
			}
			// (0) a code section / a segment whose last byte is the last byte of the address space
			for _, n := range []int{4, 8} {
				top := -uint64(n)
				do(elfgen.File{Type: elfgen.ET_EXEC, Entry: top, Sections: []elfgen.Section{{Type: elfgen.SHT_PROGBITS, Flags: 6, Addr: top, Data: mkdata(n, 0x10), Size: uint64(n)}}, Progs: fixedProgs[0]})
				do(elfgen.File{Type: elfgen.ET_EXEC, Entry: 0x1000, Sections: fixedSecs[0], Progs: []elfgen.Prog{{Type: elfgen.PT_LOAD, Vaddr: top, Data: mkdata(n, 0x80), Memsz: uint64(n)}}})
			}
			// (1) all section lists x fixed program headers x types
			r.Par(len(secLists), func(i int) {
				for _, ty := range types {
					if ty != elfgen.ET_EXEC && i%7 != 0 {
						continue
					}
					for _, pl := range fixedProgs {
						do(elfgen.File{Type: ty, Entry: 0x1000, Sections: secLists[i], Progs: pl})
						gc()
					}
				}
				// the same sections in a header table without the customary null entry at index 0
				if len(secLists[i]) > 0 {
					do(elfgen.File{Type: elfgen.ET_EXEC, Entry: 0x1000, Sections: secLists[i], Progs: fixedProgs[0], NoNull: true})
					gc()
				}
			})
			// (2) all program-header lists x fixed sections x types
			r.Par(len(progLists), func(i int) {
				for _, ty := range types {
					if ty != elfgen.ET_EXEC && ty != elfgen.ET_DYN && i%5 != 0 {
						continue
					}
					for _, sl := range fixedSecs {
						do(elfgen.File{Type: ty, Entry: 0x1004, Sections: sl, Progs: progLists[i]})
						gc()
					}
				}
			})
			if !r.Quick() {
				// (3) triples of qualifying-ish sections
				var q []elfgen.Section
				for _, s := range secs {
					if s.Type == elfgen.SHT_PROGBITS && s.Flags&elfgen.SHF_EXECINSTR != 0 {
						q = append(q, s)
					}
				}
				r.Par(len(q), func(i int) {
					for j := range q {
						for k := range secs {
							do(elfgen.File{Type: elfgen.ET_EXEC, Entry: 0x1000, Sections: []elfgen.Section{q[i], q[j], secs[k]}, Progs: fixedProgs[0]})
							gc()
						}
					}
				})
			}
			if !r.Quick() {
				// (4) triples of LOAD program headers (two qualifying-ish ones and any third)
				var lp []elfgen.Prog
				for _, p := range progs {
					if p.Type == elfgen.PT_LOAD && p.Memsz > 0 && p.Claim < 1<<16 {
						lp = append(lp, p)
					}
				}
				r.Par(len(lp), func(i int) {
					for j := range lp {
						for k := range progs {
							do(elfgen.File{Type: elfgen.ET_DYN, Entry: 0x1000, Sections: fixedSecs[0], Progs: []elfgen.Prog{lp[i], lp[j], progs[k]}})
							gc()
						}
					}
				})
			}
			r.Sample(c20Case{elfgen.File{Type: elfgen.ET_EXEC, Entry: 0x1000, Sections: []elfgen.Section{secs[5]}, Progs: []elfgen.Prog{progs[7]}}})
		},
		Replay: func(r *eng.Run, raw json.RawMessage) *eng.Fail {
			var c c20Case
			if err := json.Unmarshal(raw, &c); err != nil {
				panic(err)
			}
			dir, _ := os.MkdirTemp("", "vc20r")
			c20Dir = dir
			defer os.RemoveAll(dir)
			f, _ := c20Check(c)
			return f
		},
	}
}
