package main

import (
	"encoding/hex"
	"encoding/json"
	"fmt"
	"os"
	"path/filepath"
	"strings"
	"sync/atomic"
	"time"

	"mltwist/verifh/elfgen"
	"mltwist/verifh/eng"
	"mltwist/verifh/procx"
	"mltwist/verifh/prog"
)

// C26 — start-up is total over input files.

type c26Case struct {
	What  string   `json:"what"`
	File  string   `json:"file_hex,omitempty"` // file content (hex); empty with NoFile
	Kind  string   `json:"kind"`               // file | nofile | dir | args
	Args  []string `json:"args,omitempty"`
	PTY   bool     `json:"pty,omitempty"`
	Class string   `json:"class,omitempty"`
}

var c26Bin, c26Dir string
var c26Seq atomic.Int64

func c26Run(c c26Case) (*eng.Fail, string) {
	var args []string
	switch c.Kind {
	case "file":
		path := filepath.Join(c26Dir, fmt.Sprintf("in%d.elf", c26Seq.Add(1)))
		b, _ := hex.DecodeString(c.File)
		if err := os.WriteFile(path, b, 0o644); err != nil {
			panic(err)
		}
		defer os.Remove(path)
		args = []string{path}
	case "nofile":
		args = []string{filepath.Join(c26Dir, "does-not-exist")}
	case "dir":
		args = []string{c26Dir}
	case "args":
		args = c.Args
	}
	if c.PTY {
		res, err := procx.RunPTY(c26Bin, args, 40, 100, "q\n\n", 300*time.Second)
		if err != nil {
			return nil, "pty-unavailable"
		}
		if cr := res.Crashed(); cr != "" {
			return &eng.Fail{Sig: "start-up crash (pty) " + c.Class, What: fmt.Sprintf("%s: %s; output: %.400q", c.What, cr, res.Stdout), Case: c}, ""
		}
		if res.Exit == 0 && strings.Contains(res.Stdout, "\033[H\033[2J") {
			return nil, "ui-entered"
		}
		if res.Exit == 1 && strings.Contains(res.Stdout, "mltwist: ") {
			return nil, "error-exit"
		}
		return &eng.Fail{Sig: "start-up neither UI nor error (pty) " + c.Class, What: fmt.Sprintf("%s: exit %d, output %.300q", c.What, res.Exit, res.Stdout), Case: c}, ""
	}
	res := procx.Run(c26Bin, args, 300*time.Second)
	if cr := res.Crashed(); cr != "" {
		site := ""
		for _, l := range strings.Split(res.Stderr, "\n") {
			if strings.HasPrefix(l, "mltwist/") || strings.HasPrefix(l, "main.") {
				site = l
				if i := strings.Index(site, "("); i > 0 {
					site = site[:i]
				}
				break
			}
		}
		return &eng.Fail{Sig: "start-up crash " + cr + " " + site, What: fmt.Sprintf("%s: %s; stderr: %.400q", c.What, cr, res.Stderr), Case: c}, ""
	}
	if res.Exit == 1 && strings.HasPrefix(res.Stderr, "mltwist: ") {
		return nil, "error-exit"
	}
	return &eng.Fail{Sig: "start-up exit-status " + c.Class, What: fmt.Sprintf("%s: exit %d without error message; stderr %.200q stdout %.100q", c.What, res.Exit, res.Stderr, res.Stdout), Case: c}, ""
}

func c26Seeds() []elfgen.File {
	code1 := prog.Image([]uint32{prog.Addi(1, 0, 1), prog.Addi(2, 0, 2), prog.Beq(1, 2, 8), prog.Add(3, 1, 2), prog.Sd(3, 2, 0), prog.Jal(0, -20)})
	code2 := prog.Image([]uint32{prog.Lui(5, 1), prog.Ld(6, 5, 0), prog.Jalr(0, 6, 0)})
	data := []byte{1, 2, 3, 4, 5, 6, 7, 8}
	return []elfgen.File{
		{Type: elfgen.ET_EXEC, Entry: 0x1000,
			Sections: []elfgen.Section{{Type: elfgen.SHT_PROGBITS, Flags: 6, Addr: 0x1000, Data: code1, Size: uint64(len(code1))}},
			Progs:    []elfgen.Prog{{Type: elfgen.PT_LOAD, Vaddr: 0x1000, Data: code1, Memsz: uint64(len(code1))}, {Type: elfgen.PT_LOAD, Vaddr: 0x2000, Data: data, Memsz: 16}}},
		{Type: elfgen.ET_DYN, Entry: 0x2004,
			Sections: []elfgen.Section{{Type: elfgen.SHT_PROGBITS, Flags: 6, Addr: 0x2000, Data: code2, Size: uint64(len(code2))}, {Type: elfgen.SHT_PROGBITS, Flags: 2, Addr: 0x3000, Data: data, Size: 8}},
			Progs:    []elfgen.Prog{{Type: elfgen.PT_LOAD, Vaddr: 0x2000, Data: code2, Memsz: uint64(len(code2))}}},
	}
}

func init() {
	checks["C26"] = eng.Check{
		Rule:        "the real mltwist binary (built from the working tree) run as a process with stdin=/dev/null under a 4 GiB address-space limit and a 300 s hang guard on: (a) ELF files with RISC-V payloads over {valid code, one instruction of every class, control transfers whose every outcome is the next instruction, undecodable word, truncated word, jump outside the code, misaligned jumps into the first / a middle / the last instruction of a block, entry at every 2-byte offset of the code and outside it, no executable section, no loadable segment, overlapping segments} x types; (b) every truncation length and every single-byte substitution {00, ff, ~b} of every header byte (ELF header, program headers, section headers) of two valid seed files (thorough: 20 substitute values for EVERY byte of the files); (c) memsz in {2^22, 2^30+1, 2^36, 2^62, 2^63, 2^64-1, 2^64-8} on a regular segment, on a segment without file bytes (alone / next to regular ones) and with the file size claimed equally large, section/segment addresses at the top of the address space, two and three executable sections adjacent / near / 2^32 / 2^47 / 2^63 apart and at the top of the address space in both table orders; (d) argument vectors of length 0, 2, 3, a missing file, a directory, an empty file; plus the two seed files under a pseudo-terminal (UI must be entered and 'q' must exit 0). Oracle: exit status 1 with a 'mltwist: ' message (or UI entered), never a Go panic/fatal error, signal or timeout. Non-trivial = runs ending with the error exit.",
		Assumptions: []string{"with stdin=/dev/null a file that loads ends in 'cannot get terminal size' (exit 1), which counts as a regular error exit; the pty runs confirm that valid files do enter the UI"},
		Run: func(r *eng.Run) {
			dir, err := os.MkdirTemp("", "vc26")
			if err != nil {
				panic(err)
			}
			defer os.RemoveAll(dir)
			c26Dir = dir
			bin, err := procx.Build(dir)
			if err != nil {
				fmt.Fprintln(os.Stderr, err)
				r.Cap("cannot build cmd/mltwist: " + err.Error())
				r.Report(&eng.Fail{Sig: "build", What: err.Error(), Case: c26Case{Kind: "args"}})
				return
			}
			c26Bin = bin
			var cases []c26Case
			add := func(what, class string, b []byte) {
				cases = append(cases, c26Case{What: what, Kind: "file", File: hex.EncodeToString(b), Class: class})
			}
			seeds := c26Seeds()
			// (a) payload family
			words := map[string][]uint32{
				"valid":     {prog.Addi(1, 0, 1), prog.Jal(0, -4)},
				"undecod":   {prog.Addi(1, 0, 1), 0xffffffff},
				"zero":      {0},
				"jump-out":  {prog.Addi(1, 0, 1), prog.Jal(0, 0x100)},
				"jump-mid":  {prog.Beq(0, 0, 6), prog.Nop, prog.Nop},
				"jump-self": {prog.Addi(1, 0, 1), prog.Jal(0, 2)},
				"jump-last": {prog.Jal(0, 6), prog.Jalr(0, 1, 0)},
				"jump-back": {prog.Nop, prog.Jalr(0, 1, 0), prog.Beq(1, 2, -2)},
				"branch-bk": {prog.Bne(1, 2, -8)},
				// control transfers whose every outcome is the next instruction
				"fallthru": {prog.Beq(0, 0, 4), prog.Jal(1, 4), prog.B(4, 2, 1, 5) /* bge +4 */, prog.Bne(3, 3, 4), prog.Jalr(0, 1, 0)},
				// one instruction of every class the front end knows
				"all-kinds": {prog.Lui(1, 0xfffff), prog.Auipc(2, 1), prog.Lw(3, 2, -4), prog.Sw(3, 2, 8), prog.Addi(4, 3, -1), prog.Add(5, 4, 3),
					0x0ff0000f /* fence */, 0x0000100f /* fence.i */, prog.Csrrw(6, 5, 0x340), prog.Mul(7, 6, 5), prog.Div(8, 7, 0), prog.AmoaddW(9, 2, 8),
					prog.LrW(10, 2), prog.ScW(11, 2, 10), prog.Addw(12, 11, 10), prog.Ecall, 0x00100073 /* ebreak */, prog.Jalr(0, 1, 0)},
			}
			for name, ws := range words {
				img := prog.Image(ws)
				for _, trunc := range []int{0, 1, 2, 3} {
					code := img[:len(img)-trunc]
					for _, ty := range []uint16{elfgen.ET_EXEC, elfgen.ET_DYN, elfgen.ET_REL, elfgen.ET_CORE, elfgen.ET_NONE} {
						for _, entry := range []uint64{0x1000, 0x1002, 0x1004, 0x1006, 0x1008, 0x100a, 0x100c, 0x5000, 0} {
							if r.Quick() && ty != elfgen.ET_EXEC && ty != elfgen.ET_DYN && (entry != 0x1000 || trunc != 0) {
								continue // quick: file types that are refused at open get one file per payload
							}
							f := elfgen.File{Type: ty, Entry: entry,
								Sections: []elfgen.Section{{Type: elfgen.SHT_PROGBITS, Flags: 6, Addr: 0x1000, Data: code, Size: uint64(len(code))}},
								Progs:    []elfgen.Prog{{Type: elfgen.PT_LOAD, Vaddr: 0x1000, Data: code, Memsz: uint64(len(code)) + 4}}}
							add(fmt.Sprintf("payload %s trunc=%d type=%d entry=%#x", name, trunc, ty, entry), "payload", f.Bytes())
						}
					}
				}
			}
			s0 := seeds[0]
			noExec := s0
			noExec.Sections = []elfgen.Section{{Type: elfgen.SHT_PROGBITS, Flags: 2, Addr: 0x1000, Data: []byte{1, 2, 3, 4}, Size: 4}}
			add("no executable section", "layout", noExec.Bytes())
			noSec := s0
			noSec.Sections = nil
			add("no sections", "layout", noSec.Bytes())
			noLoad := s0
			noLoad.Progs = nil
			add("no program headers", "layout", noLoad.Bytes())
			ovl := s0
			ovl.Progs = append(append([]elfgen.Prog{}, s0.Progs...), elfgen.Prog{Type: elfgen.PT_LOAD, Vaddr: 0x1004, Data: []byte{9, 9, 9, 9}, Memsz: 4})
			add("overlapping segments", "layout", ovl.Bytes())
			ovs := s0
			ovs.Sections = append(append([]elfgen.Section{}, s0.Sections...), elfgen.Section{Type: elfgen.SHT_PROGBITS, Flags: 6, Addr: 0x1004, Data: prog.Image([]uint32{prog.Nop}), Size: 4})
			add("overlapping executable sections", "layout", ovs.Bytes())
			// (c) huge sizes and top-of-address-space
			for _, ms := range []uint64{1 << 22, 1<<30 + 1, 1 << 36, 1 << 62, 1 << 63, ^uint64(0), ^uint64(0) - 7} {
				h := s0
				h.Progs = []elfgen.Prog{{Type: elfgen.PT_LOAD, Vaddr: 0x1000, Data: s0.Progs[0].Data, Memsz: ms}}
				add(fmt.Sprintf("memsz=%#x", ms), "huge-memsz", h.Bytes())
				// the same size on a segment without file bytes (bss only), alone and next to the regular one
				hb := s0
				hb.Progs = []elfgen.Prog{{Type: elfgen.PT_LOAD, Vaddr: 0x100000, Memsz: ms}}
				add(fmt.Sprintf("bss-only segment with memsz=%#x", ms), "huge-memsz", hb.Bytes())
				hb2 := s0
				hb2.Progs = append(append([]elfgen.Prog{}, s0.Progs...), elfgen.Prog{Type: elfgen.PT_LOAD, Vaddr: 0x100000, Memsz: ms})
				add(fmt.Sprintf("regular segments plus a bss-only segment with memsz=%#x", ms), "huge-memsz", hb2.Bytes())
				// ... and with a file extent claimed beyond the file
				hc := s0
				hc.Progs = []elfgen.Prog{{Type: elfgen.PT_LOAD, Vaddr: 0x1000, Data: s0.Progs[0].Data, Memsz: ms, Claim: ms - uint64(len(s0.Progs[0].Data))}}
				add(fmt.Sprintf("filesz=memsz=%#x beyond the file", ms), "huge-memsz", hc.Bytes())
				h2 := s0
				h2.Progs = []elfgen.Prog{{Type: elfgen.PT_LOAD, Vaddr: ^uint64(0) - 3, Data: []byte{1, 2, 3, 4}, Memsz: 8}}
				add("segment wrapping the top of the address space", "top", h2.Bytes())
			}
			for _, ad := range []uint64{^uint64(0) - 3, ^uint64(0) - 7, ^uint64(0) - 23, 1 << 63} {
				t := s0
				code := s0.Sections[0].Data
				t.Sections = []elfgen.Section{{Type: elfgen.SHT_PROGBITS, Flags: 6, Addr: ad, Data: code, Size: uint64(len(code))}}
				t.Entry = ad
				add(fmt.Sprintf("executable section at %#x", ad), "top", t.Bytes())
			}
			// several executable sections: adjacent, near, and far apart (the distance between
			// sections is file-controlled and unrelated to the file's size), in both table orders
			code2 := prog.Image([]uint32{prog.Addi(7, 0, 7), prog.Jal(0, 0)})
			for _, far := range []uint64{0x1000 + uint64(len(s0.Sections[0].Data)), 0x2000, 1 << 32, 0x7ffff0000000, 0xffffffff80000000, 1 << 63, ^uint64(0) - 63} {
				for order := 0; order < 2; order++ {
					t := s0
					second := elfgen.Section{Type: elfgen.SHT_PROGBITS, Flags: 6, Addr: far, Data: code2, Size: uint64(len(code2))}
					t.Sections = []elfgen.Section{s0.Sections[0], second}
					if order == 1 {
						t.Sections = []elfgen.Section{second, s0.Sections[0]}
					}
					add(fmt.Sprintf("two executable sections, at 0x1000 and %#x (table order %d)", far, order), "sections", t.Bytes())
				}
				t3 := s0
				t3.Sections = []elfgen.Section{s0.Sections[0], {Type: elfgen.SHT_PROGBITS, Flags: 6, Addr: far, Data: code2, Size: 8}, {Type: elfgen.SHT_PROGBITS, Flags: 6, Addr: far + 0x100, Data: code2, Size: 8}}
				t3.Entry = far
				add(fmt.Sprintf("three executable sections, at 0x1000, %#x and %#x, entry in the second", far, far+0x100), "sections", t3.Bytes())
			}
			// (b) truncations and byte substitutions of the seeds
			for si, s := range seeds {
				b := s.Bytes()
				step := 1
				if r.Quick() {
					step = 3
				}
				for l := 0; l < len(b); l += step {
					add(fmt.Sprintf("seed %d truncated to %d bytes", si, l), "truncated", b[:l])
				}
				// header bytes: ELF header, program headers, section headers (at the end)
				var idx []int
				phEnd := 64 + 56*len(s.Progs)
				for i := 0; i < phEnd; i++ {
					idx = append(idx, i)
				}
				shStart := len(b) - 64*(len(s.Sections)+2)
				for i := shStart; i < len(b); i++ {
					idx = append(idx, i)
				}
				vals := func(o byte) []byte { return []byte{0x00, 0xff, ^o} }
				if !r.Quick() {
					// thorough: every byte of the file (not only the headers) and 20 substitute values
					idx = idx[:0]
					for i := range b {
						idx = append(idx, i)
					}
					vals = func(o byte) []byte {
						return []byte{0, 1, 2, 3, 4, 7, 8, 0x10, 0x3f, 0x40, 0x41, 0x7f, 0x80, 0xf3, 0xfe, 0xff, o ^ 1, o + 1, o - 1, ^o}
					}
				}
				for _, i := range idx {
					done := map[byte]bool{}
					for _, v := range vals(b[i]) {
						if v == b[i] || done[v] {
							continue
						}
						done[v] = true
						if r.Quick() && v == ^b[i] && i%2 == 1 {
							continue
						}
						m := append([]byte{}, b...)
						m[i] = v
						add(fmt.Sprintf("seed %d byte %d: %#02x -> %#02x", si, i, b[i], v), "corrupted", m)
					}
				}
			}
			add("empty file", "misc", nil)
			add("text file", "misc", []byte("hello world\n"))
			cases = append(cases,
				c26Case{What: "missing file", Kind: "nofile", Class: "misc"},
				c26Case{What: "directory", Kind: "dir", Class: "misc"},
				c26Case{What: "no arguments", Kind: "args", Args: nil, Class: "args"},
				c26Case{What: "two arguments", Kind: "args", Args: []string{"a", "b"}, Class: "args"},
				c26Case{What: "three arguments", Kind: "args", Args: []string{"a", "b", "c"}, Class: "args"},
			)
			for si, s := range seeds {
				cases = append(cases, c26Case{What: fmt.Sprintf("seed %d under a pty", si), Kind: "file", File: hex.EncodeToString(s.Bytes()), PTY: true, Class: "seed"})
			}
			r.Note("process runs=%d", len(cases))
			r.ItemLimit = -1 // every process run has its own 300 s hang guard
			r.Par(len(cases), func(i int) {
				f, out := c26Run(cases[i])
				r.Eval(1)
				r.Outcome(out)
				if out == "error-exit" || out == "ui-entered" {
					r.Nontrivial(1)
				}
				if f != nil {
					r.Report(f)
					r.Outcome(f.Sig)
				}
			})
			for _, cs := range cases {
				if cs.Class == "corrupted" {
					cs.File = cs.File[:32] + "..."
					r.Sample(cs)
					break
				}
			}
			r.Sample(c26Case{What: "memsz=2^63", Kind: "file", Class: "huge-memsz", File: "(seed 0 with p_memsz=0x8000000000000000)"})
		},
		Replay: func(r *eng.Run, raw json.RawMessage) *eng.Fail {
			var c c26Case
			if err := json.Unmarshal(raw, &c); err != nil {
				panic(err)
			}
			if _, err := os.Stat(c26Bin); c26Bin == "" || err != nil {
				dir, _ := os.MkdirTemp("", "vc26r")
				defer os.RemoveAll(dir)
				c26Dir = dir
				bin, err := procx.Build(dir)
				if err != nil {
					panic(err)
				}
				c26Bin = bin
				defer func() { c26Bin = "" }()
			}
			f, _ := c26Run(c)
			return f
		},
	}
}
