// Command prog hosts the checks over code model, emulator, ELF loading and
// start-up (C03-C08, C20, C26).
package main

import "mltwist/verifh/eng"

var checks = map[string]eng.Check{}

func main() { eng.Main(checks) }
