package main

import (
	"encoding/json"
	"fmt"
	"sort"
	"strings"
	"sync"

	"mltwist/internal/riscv"
	"mltwist/pkg/model"
	"mltwist/verifh/eng"
	"mltwist/verifh/rvref"
	"mltwist/verifh/rvx"
)

// C01 — lifted RISC-V instructions have exactly the RISC-V semantics.

type c01Case struct {
	Cfg  rvx.Cfg `json:"cfg"`
	Word uint32  `json:"word"`
	Hex  string  `json:"hex,omitempty"`
	Name string  `json:"name,omitempty"`
	PC   uint64  `json:"pc"`
	VA   uint64  `json:"rs1_value"`
	VB   uint64  `json:"rs2_value"`
	Seed uint64  `json:"seed"`
	// Prime: when set, a FRESH parser first lifts the same word at this address and is then
	// used for the case itself (lifting must not depend on what a parser lifted before).
	Prime *uint64 `json:"prime_pc,omitempty"`
	// Shared: the word is held in ONE byte buffer which is first offered to the base-ISA parser
	// of the same XLEN (it refuses M and A words) and then lifted from that same buffer — the
	// way one code image is handed from front end to front end.
	Shared bool `json:"shared_buffer,omitempty"`
}

func (c c01Case) pre() *rvx.Pre {
	p := &rvx.Pre{Seed: c.Seed, XLEN: c.Cfg.XLEN}
	mask := ^uint64(0)
	if c.Cfg.XLEN == 32 {
		mask = 0xffffffff
	}
	for n := 1; n < 32; n++ {
		p.X[n] = (uint64(n)*0x0101010101010101 ^ c.Seed*0x9e3779b97f4a7c15 ^ 0x8040201008040201) & mask
	}
	rs1, rs2 := c.Word>>15&31, c.Word>>20&31
	p.X[rs1] = c.VA & mask
	p.X[rs2] = c.VB & mask
	p.X[0] = 0
	return p
}

// A parser is never used by two goroutines at once (the tool is sequential and a
// parser may keep state): parser sets are handed out by a pool, one per goroutine at a time.
type parserSet map[rvx.Cfg]riscv.Parser

var parserPool = sync.Pool{New: func() any {
	ps := parserSet{}
	for _, c := range rvx.AllCfgs() {
		ps[c] = rvx.Parser(c)
	}
	return ps
}}

func getParsers() parserSet   { return parserPool.Get().(parserSet) }
func putParsers(ps parserSet) { parserPool.Put(ps) }

// c01Run returns (fail, inDomain).
func c01Run(c c01Case) (*eng.Fail, bool) {
	name := rvref.DecodeFast(c.Word, c.Cfg.Ref())
	if name == "" {
		return nil, false
	}
	c.Name, c.Hex = name, fmt.Sprintf("%08x", c.Word)
	var ps riscv.Parser
	if c.Prime != nil {
		ps = rvx.Parser(c.Cfg)
		eng.Catch(func() { ps.Parse(model.Addr(*c.Prime), rvx.WordBytes(c.Word)) })
	} else {
		pset := getParsers()
		defer putParsers(pset)
		ps = pset[c.Cfg]
	}
	var in model.Instruction
	var err error
	tag := fmt.Sprintf("rv%d %s", c.Cfg.XLEN, name)
	if c.Prime != nil {
		tag += " (after lifting the same word elsewhere)"
	}
	buf := rvx.WordBytes(c.Word)
	if c.Shared {
		tag += " (word in a buffer other front ends were offered before)"
		pset := getParsers()
		if base := (rvx.Cfg{XLEN: c.Cfg.XLEN}); base != c.Cfg {
			eng.Catch(func() { pset[base].Parse(model.Addr(c.PC), buf) })
		}
		putParsers(pset)
	}
	p, stack := eng.Catch(func() { in, err = ps.Parse(model.Addr(c.PC), buf) })
	if p != nil {
		return &eng.Fail{Sig: tag + " lift-panic " + eng.PanicSite(stack), What: fmt.Sprintf("%s: lifting %s (%08x) at %#x panics: %v", c.Cfg, name, c.Word, c.PC, p), Case: c}, true
	}
	if err != nil {
		return nil, false // acceptance is C02's business
	}
	pre := c.pre()
	var post *rvx.Post
	var bad string
	p, stack = eng.Catch(func() { post, bad = rvx.Apply(in.Effects, pre) })
	if p != nil {
		return &eng.Fail{Sig: tag + " effects-unevaluable " + eng.PanicSite(stack), What: fmt.Sprintf("%s: effects of %s (%08x) cannot be evaluated: %v", c.Cfg, name, c.Word, p), Case: c}, true
	}
	if bad != "" {
		cls := "key"
		if strings.Contains(bad, "CSR") {
			cls = "csr-name"
		}
		if strings.Contains(bad, "x0") {
			cls = "x0"
		}
		return &eng.Fail{Sig: tag + " " + cls, What: fmt.Sprintf("%s: %s (%08x): %s; effects: %s", c.Cfg, name, c.Word, bad, showEffects(in)), Case: c}, true
	}
	if post.Wrap {
		return nil, false
	}
	m := rvx.RefRun(c.Cfg, c.Word, name, c.PC, pre)
	if cls, diff := rvx.Compare(c.Cfg, post, m, c.PC, pre); cls != "" {
		return &eng.Fail{Sig: tag + " " + cls, What: fmt.Sprintf("%s: %s (%08x, %q) at %#x with rs1=%#x rs2=%#x: %s", c.Cfg, name, c.Word, detailsText(in), c.PC, pre.X[c.Word>>15&31], pre.X[c.Word>>20&31], diff), Case: c}, true
	}
	return nil, true
}

var v64 = []uint64{0, 1, 2, 3, 31, 32, 63, 64, 0x7f, 0x80, 0xff, 0x7fff, 0x8000, 0xffff, 0x7fffffff, 0x80000000, 0xffffffff,
	1 << 32, 1<<63 - 1, 1 << 63, ^uint64(0), ^uint64(0) - 1, 0xffffffff80000000, 0xffffffff7fffffff, 0x5555555555555555, 0xaaaaaaaaaaaaaaaa}

func vals(thorough bool) []uint64 {
	if !thorough {
		return v64
	}
	set := map[uint64]bool{}
	for _, v := range v64 {
		set[v] = true
	}
	for k := 0; k < 64; k++ {
		set[1<<k] = true
		set[1<<k-1] = true
		set[^(uint64(1) << k)] = true
	}
	var out []uint64
	for v := range set {
		out = append(out, v)
	}
	sort.Slice(out, func(i, j int) bool { return out[i] < out[j] })
	return out
}

var imm12 = []int64{0, 1, 2, 3, 4, 7, 8, 16, 31, 32, 63, 64, 0x555, 0x7fe, 2047, -1, -2, -4, -8, -0x556, -2047, -2048}
var immB = []int64{0, 4, 8, 12, 2046, 4094, 0x554, -4, -8, -2, -4096, -0x556, 2048, -2048}
var immJ = []int64{0, 4, 8, 0x7fe, 0x800, 0xffffe, 0x55554, 2, -2, -4, -8, -0x100000, -0x55556, 0x80000, -0x80000}
var immU = []uint32{0, 1, 0x7ffff, 0x80000, 0xfffff, 0x12345, 0xaaaaa, 0x55555}

// words builds instruction words of a row for given registers and "immediate index" alphabets.
func buildWords(row rvref.Row, rd, rs1, rs2 uint32, all bool) []uint32 {
	regs := rd<<7 | rs1<<15 | rs2<<20
	f := rvref.Format(row.Name)
	base := row.Match
	var out []uint32
	put := func(bits uint32) { out = append(out, base|(bits&^row.Mask)) }
	switch f {
	case "R", "AMO":
		put(regs)
		if f == "AMO" {
			put(regs | 3<<25) // aq, rl
		}
	case "LR":
		put(rd<<7 | rs1<<15)
		put(rd<<7 | rs1<<15 | 1<<26)
	case "I":
		if all {
			for i := int64(-2048); i < 2048; i++ {
				put(rd<<7 | rs1<<15 | rvref.EncI(i))
			}
		} else {
			for _, i := range imm12 {
				put(rd<<7 | rs1<<15 | rvref.EncI(i))
			}
		}
	case "S":
		if all {
			for i := int64(-2048); i < 2048; i++ {
				put(rs1<<15 | rs2<<20 | rvref.EncS(i))
			}
		} else {
			for _, i := range imm12 {
				put(rs1<<15 | rs2<<20 | rvref.EncS(i))
			}
		}
	case "B":
		if all {
			for i := int64(-4096); i < 4096; i += 2 {
				put(rs1<<15 | rs2<<20 | rvref.EncB(i))
			}
		} else {
			for _, i := range immB {
				put(rs1<<15 | rs2<<20 | rvref.EncB(i))
			}
		}
	case "U":
		for _, i := range immU {
			put(rd<<7 | rvref.EncU(i))
		}
	case "J":
		for _, i := range immJ {
			put(rd<<7 | rvref.EncJ(i))
		}
	case "SH":
		for sh := uint32(0); sh < 64; sh++ {
			w := base | ((rd<<7 | rs1<<15 | sh<<20) &^ row.Mask)
			if sh<<20&row.Mask != 0 { // shift amount not encodable in this row
				continue
			}
			out = append(out, w)
		}
	case "CSR", "CSRI":
		csrs := []uint32{0, 1, 2, 0x300, 0x7ff, 0x800, 0xc00, 0xc01, 0xfff, 0xaaa}
		if all {
			csrs = nil
			for n := uint32(0); n < 4096; n++ {
				csrs = append(csrs, n)
			}
		}
		for _, n := range csrs {
			put(rd<<7 | rs1<<15 | n<<20)
		}
	case "FENCE":
		put(0)
		put(0xff << 20)
		put(0x5a << 20)
	case "FIX":
		put(0)
	}
	return out
}

func init() {
	checks["C01"] = eng.Check{
		Rule: "for RV32 and RV64 (all of I, M, A): (a) semantics: every mnemonic x distinct registers x immediate alphabets (22 twelve-bit, 14 branch, 15 jump, 8 upper immediates, every shift amount, 10 CSR numbers) x operand values V64^2 (26 boundary values; thorough ~190) x 2 addresses x 2 memory seeds; (b) aliasing: every mnemonic x all 4^3 register choices from {x0,x1,x2,x31} x 7^2 values (incl. values whose low bytes are zero); (c) every register number 0..31 in each field, and identical effects in all 4 extension subsets; (d) all 4096 I/S immediates, all 4096 branch offsets, all 4096 CSR numbers per mnemonic x 3 values (thorough: all 2^20 U and J immediates); (e) pc-relative instructions at 9 addresses up to the top of the address space; (f) history independence: for every mnemonic a FRESH parser first lifts the same word at another address and is then used for the case; (g) for every mnemonic the word is held in one byte buffer that is first offered to the base-ISA parser (which refuses M and A words) and then lifted from that buffer by the configuration's parser (register-register and atomic forms with every rs2 and aq/rl). A parser is never shared between goroutines. Lifted effects applied by the independent IR evaluator to the pre-state and compared with the reference interpreter on x1..x31, touched CSRs, written memory bytes and pc; keys must be x1..x31/csr0..csr4095/ip. Non-trivial = executed case inside the domain (no access straddling 2^XLEN).",
		Assumptions: []string{
			"register/memory values are boundary alphabets, not all 2^64 values (the gadgets are covered for all width-1 operands by C11)",
			"memory accesses straddling 2^XLEN are excluded",
			"reference: harness/rvref written from the unprivileged specification with the tool's documented approximations (SC succeeds and writes 0, LR plain load, fence/ecall/ebreak no-ops)",
		},
		Run: func(r *eng.Run) {
			type job struct {
				cfg rvx.Cfg
				row rvref.Row
			}
			var jobs []job
			for _, x := range []int{32, 64} {
				cfg := rvx.Cfg{XLEN: x, M: true, A: true}
				for _, row := range rvref.Rows(cfg.Ref()) {
					jobs = append(jobs, job{cfg, row})
				}
			}
			vs := vals(!r.Quick())
			r.Note("mnemonic rows=%d values=%d", len(jobs), len(vs))
			do := func(c c01Case) {
				f, in := c01Run(c)
				r.Eval(1)
				if in {
					r.Nontrivial(1)
				}
				if f != nil {
					r.Report(f)
					r.Outcome(f.Sig)
				}
			}
			pcs := func(cfg rvx.Cfg) []uint64 {
				if cfg.XLEN == 32 {
					return []uint64{0x1000, 0x7ffffffc}
				}
				return []uint64{0x1000, 0x7ffffffffffffffc}
			}
			// (a) semantics
			r.Par(len(jobs), func(i int) {
				j := jobs[i]
				f := rvref.Format(j.row.Name)
				two := f == "R" || f == "AMO" || f == "S" || f == "B"
				for _, w := range buildWords(j.row, 3, 1, 2, false) {
					for _, pc := range pcs(j.cfg) {
						for _, va := range vs {
							vbs := vs
							if !two {
								vbs = vs[:1]
							}
							for _, vb := range vbs {
								do(c01Case{Cfg: j.cfg, Word: w, PC: pc, VA: va, VB: vb, Seed: 1})
							}
							if f == "I" || f == "S" || f == "AMO" || f == "LR" {
								do(c01Case{Cfg: j.cfg, Word: w, PC: pc, VA: va, VB: 0x1122334455667788, Seed: 2})
							}
						}
					}
				}
			})
			r.Sample(c01Case{Cfg: rvx.Cfg{XLEN: 64, M: true, A: true}, Word: 0x02209db3, Name: "mulh x27,x1,x2", PC: 0x1000, VA: 1 << 63, VB: 3, Seed: 1})
			// (b) aliasing
			rs := []uint32{0, 1, 2, 31}
			// ... values incl. some whose low byte(s) are zero: x0 is lifted as a ONE-byte zero, so a
			// width taken from the wrong operand shows only on values living in the upper bytes
			av := []uint64{0, 5, 0xffffffffffffff80, 0x8000000000000001, 0x100, 0xffffffff00000000, 0x8000000000000000}
			r.Par(len(jobs), func(i int) {
				j := jobs[i]
				for _, rd := range rs {
					for _, r1 := range rs {
						for _, r2 := range rs {
							ws := buildWords(j.row, rd, r1, r2, false)
							if len(ws) > 3 {
								ws = []uint32{ws[0], ws[len(ws)/2], ws[len(ws)-1]}
							}
							for _, w := range ws {
								for _, va := range av {
									for _, vb := range av {
										do(c01Case{Cfg: j.cfg, Word: w, PC: 0x2000, VA: va, VB: vb, Seed: 3})
									}
								}
							}
						}
					}
				}
			})
			// (c) register naming + extension-subset invariance
			r.Par(len(jobs), func(i int) {
				j := jobs[i]
				for n := uint32(0); n < 32; n++ {
					for _, trip := range [][3]uint32{{n, 1, 2}, {3, n, 2}, {3, 1, n}} {
						ws := buildWords(j.row, trip[0], trip[1], trip[2], false)
						if len(ws) > 2 {
							ws = ws[:2]
						}
						for _, w := range ws {
							do(c01Case{Cfg: j.cfg, Word: w, PC: 0x3000, VA: 0x1234567890abcdef, VB: 0xfedcba0987654321, Seed: 4})
							// same effects in every configuration which has the instruction
							pset := getParsers()
							ref, e0 := pset[j.cfg].Parse(0x3000, rvx.WordBytes(w))
							for _, oc := range rvx.AllCfgs() {
								if oc.XLEN != j.cfg.XLEN || rvref.DecodeFast(w, oc.Ref()) == "" {
									continue
								}
								o, e1 := pset[oc].Parse(0x3000, rvx.WordBytes(w))
								r.Eval(1)
								if (e0 == nil) != (e1 == nil) || e0 == nil && showEffects(ref) != showEffects(o) {
									r.Report(&eng.Fail{Sig: fmt.Sprintf("rv%d %s extension-subset-dependent", j.cfg.XLEN, j.row.Name),
										What: fmt.Sprintf("%08x lifts differently in %s and %s", w, j.cfg, oc), Case: c01Case{Cfg: oc, Word: w, PC: 0x3000}})
								}
							}
							putParsers(pset)
						}
					}
				}
			})
			// (d) all immediates
			r.Par(len(jobs), func(i int) {
				j := jobs[i]
				switch rvref.Format(j.row.Name) {
				case "I", "S", "B", "CSR", "CSRI":
					for _, w := range buildWords(j.row, 3, 1, 2, true) {
						for _, va := range []uint64{0, 0x7fffffffffffff00, 0xffffffffffffffff} {
							do(c01Case{Cfg: j.cfg, Word: w, PC: 0x4000, VA: va, VB: 0x0102030405060708, Seed: 5})
						}
					}
				case "U", "J":
					step := uint32(1)
					if r.Quick() {
						step = 257 // quick: every 257th of the 2^20 immediates plus the alphabet of (a)
					}
					for imm := uint32(0); imm < 1<<20; imm += step {
						w := j.row.Match | 3<<7 | imm<<12
						do(c01Case{Cfg: j.cfg, Word: w, PC: 0x4000, Seed: 5})
					}
				}
			})
			// (e) addresses
			r.Par(len(jobs), func(i int) {
				j := jobs[i]
				switch rvref.Format(j.row.Name) {
				case "U", "J", "B":
				default:
					if j.row.Name != "jalr" {
						return
					}
				}
				addrs := []uint64{0, 4, 0x1000, 1<<31 - 4, 1 << 31, 1<<32 - 4}
				if j.cfg.XLEN == 64 {
					addrs = append(addrs, 1<<32, 1<<63, ^uint64(0)-3)
				}
				for _, w := range buildWords(j.row, 3, 1, 2, false) {
					for _, pc := range addrs {
						for _, v := range [][2]uint64{{0, 0}, {1, 2}, {2, 1}, {^uint64(0), 0}, {0x1000, 0x1000}} {
							do(c01Case{Cfg: j.cfg, Word: w, PC: pc, VA: v[0], VB: v[1], Seed: 6})
						}
					}
				}
			})
			// (f) history independence: a fresh parser lifts the word at another address first
			r.Par(len(jobs), func(i int) {
				j := jobs[i]
				ws := buildWords(j.row, 3, 1, 2, false)
				if len(ws) > 6 {
					ws = []uint32{ws[0], ws[1], ws[len(ws)/2], ws[len(ws)-2], ws[len(ws)-1]}
				}
				for _, w := range ws {
					for _, pp := range [][2]uint64{{0x1000, 0x2000}, {0x7ffffff0, 0x1000}} {
						prime := pp[0]
						do(c01Case{Cfg: j.cfg, Word: w, PC: pp[1], VA: 0x8000000000000123, VB: 0x77, Seed: 7, Prime: &prime})
					}
				}
			})
			// (g) one buffer handed from front end to front end: refused by the smaller subsets, then lifted
			r.Par(len(jobs), func(i int) {
				j := jobs[i]
				ws := buildWords(j.row, 3, 1, 2, false)
				if len(ws) > 6 {
					ws = []uint32{ws[0], ws[1], ws[len(ws)/2], ws[len(ws)-2], ws[len(ws)-1]}
				}
				// register-register and atomic forms: every rs2 (and every aq/rl combination), so that
				// every value of the word's top byte occurs
				if f := rvref.Format(j.row.Name); f == "R" || f == "AMO" {
					for rs2 := uint32(0); rs2 < 32; rs2++ {
						for aqrl := uint32(0); aqrl < 4; aqrl++ {
							if f == "R" && aqrl > 0 {
								continue
							}
							ws = append(ws, j.row.Match|(5<<7|6<<15|rs2<<20|aqrl<<25)&^j.row.Mask)
						}
					}
				}
				for _, w := range ws {
					do(c01Case{Cfg: j.cfg, Word: w, PC: 0x2000, VA: 0x8000000000000123, VB: 0x77, Seed: 7, Shared: true})
					do(c01Case{Cfg: j.cfg, Word: w, PC: 0x2000, VA: 3, VB: 5, Seed: 8, Shared: true})
				}
			})
			r.Sample(c01Case{Cfg: rvx.Cfg{XLEN: 32, M: true, A: true}, Word: 0xfe209ee3, Name: "bne x1,x2,-4", PC: 0, VA: 1, VB: 2, Seed: 6})
		},
		Replay: func(r *eng.Run, raw json.RawMessage) *eng.Fail {
			var c c01Case
			if err := json.Unmarshal(raw, &c); err != nil {
				panic(err)
			}
			f, _ := c01Run(c)
			return f
		},
	}
}

func modelAddr(a uint64) model.Addr { return model.Addr(a) }
