package main

import (
	"encoding/json"
	"fmt"
	"strconv"
	"strings"

	"mltwist/internal/riscv"
	"mltwist/pkg/model"
	"mltwist/verifh/eng"
	"mltwist/verifh/ir"
	"mltwist/verifh/rvref"
	"mltwist/verifh/rvx"
)

// C02 — the decoder accepts exactly the supported instruction set.

type c02Case struct {
	Cfg   rvx.Cfg `json:"cfg"`
	Word  uint32  `json:"word"`
	Hex   string  `json:"hex,omitempty"`
	Trail string  `json:"trail,omitempty"` // hex of trailing bytes
	Len   int     `json:"len,omitempty"`   // input length if < 4 (short input case)
	Short bool    `json:"short,omitempty"`
	// Prefix: words decoded on the SAME fresh parser before Word (their outcome is not judged
	// here): a decode must not depend on what the parser saw before
	Prefix []uint32 `json:"prefix,omitempty"`
	// Args: how the extension list is spelled when the (fresh) parser is built: rev | dup | revdup
	Args string `json:"args,omitempty"`
	// Twice: the word is held in one byte buffer that a fresh parser is offered twice; the
	// second outcome is judged (a refusal must leave the offered bytes as they are)
	Twice bool `json:"same_buffer_twice,omitempty"`
	// At: hex address the word is decoded at ("" = 0x1000): acceptance does not depend on it
	At string `json:"at,omitempty"`
}

func (c c02Case) addr() model.Addr {
	if c.At == "" {
		return 0x1000
	}
	a, err := strconv.ParseUint(c.At, 16, 64)
	if err != nil {
		panic(err)
	}
	return model.Addr(a)
}

// detailsText returns Details.String(), or a marker if it panics.
func detailsText(in model.Instruction) (txt string) {
	p, _ := eng.Catch(func() { txt = in.Details.String() })
	if p != nil {
		return fmt.Sprintf("<String() panics: %v>", p)
	}
	return txt
}

func showEffects(in model.Instruction) string {
	var sb strings.Builder
	for _, e := range in.Effects {
		sb.WriteString(ir.ShowEffect(e))
		sb.WriteString("; ")
	}
	return sb.String()
}

// c02Word checks one word; ps may be nil (replay).
func c02Word(ps *riscv.Parser, c c02Case) (*eng.Fail, bool) {
	if c.Args != "" {
		var p riscv.Parser
		if pp, stack := eng.Catch(func() { p = rvx.ParserArgs(c.Cfg, c.Args) }); pp != nil {
			return &eng.Fail{Sig: "NewParser panic " + eng.PanicSite(stack), What: fmt.Sprintf("NewParser for %s with the extension list spelled %q panics: %v", c.Cfg, c.Args, pp), Case: c}, false
		}
		cc := c
		cc.Args = ""
		f, acc := c02Word(&p, cc)
		if f != nil {
			f.Sig += " (extension list " + c.Args + ")"
			f.What += fmt.Sprintf(" — parser built with the extension list spelled %q", c.Args)
			c.Hex = fmt.Sprintf("%08x", c.Word)
			f.Case = c
		}
		return f, acc
	}
	if len(c.Prefix) > 0 {
		p := rvx.Parser(c.Cfg)
		ps = &p
		for _, w := range c.Prefix {
			eng.Catch(func() { ps.Parse(0x1000, rvx.WordBytes(w)) })
		}
		cc := c
		cc.Prefix = nil
		f, acc := c02Word(ps, cc)
		if f != nil {
			f.Sig += " (after other words on the same parser)"
			f.What += fmt.Sprintf(" — decoded after %08x on the same parser", c.Prefix)
			c.Hex = fmt.Sprintf("%08x", c.Word)
			f.Case = c
		}
		return f, acc
	}
	if ps == nil {
		p := rvx.Parser(c.Cfg)
		ps = &p
	}
	c.Hex = fmt.Sprintf("%08x", c.Word)
	bs := rvx.WordBytes(c.Word)
	if c.At != "" && !c.Twice {
		f, acc := c02WordBuf(ps, c, bs)
		if f != nil {
			f.Sig += " (at an address other than 0x1000)"
			f.What += " — decoded at address 0x" + c.At
		}
		return f, acc
	}
	if c.Twice {
		eng.Catch(func() { ps.Parse(0x1000, bs) })
		cc := c
		cc.Twice = false
		f, acc := c02WordBuf(ps, cc, bs)
		if f != nil {
			f.Sig += " (second parse of one buffer)"
			f.What += " — the same byte buffer had been offered to this parser once before"
			f.Case = c
		}
		return f, acc
	}
	return c02WordBuf(ps, c, bs)
}

func c02WordBuf(ps *riscv.Parser, c c02Case, bs []byte) (*eng.Fail, bool) {
	if c.Short {
		var err error
		p, stack := eng.Catch(func() { _, err = ps.Parse(c.addr(), bs[:c.Len]) })
		if p != nil {
			return &eng.Fail{Sig: "short-input panic " + eng.PanicSite(stack), What: fmt.Sprintf("Parse of %d bytes panics: %v", c.Len, p), Case: c}, false
		}
		if err == nil {
			return &eng.Fail{Sig: "short-input accepted", What: fmt.Sprintf("Parse accepted an input of %d bytes (%x)", c.Len, bs[:c.Len]), Case: c}, false
		}
		return nil, false
	}
	var in model.Instruction
	var err error
	p, stack := eng.Catch(func() { in, err = ps.Parse(c.addr(), bs) })
	if p != nil {
		return &eng.Fail{Sig: "Parse panic " + eng.PanicSite(stack), What: fmt.Sprintf("%s: Parse(%08x) panics: %v", c.Cfg, c.Word, p), Case: c}, false
	}
	exp := rvref.DecodeFast(c.Word, c.Cfg.Ref())
	if (err == nil) != (exp != "") {
		if err == nil {
			return &eng.Fail{Sig: "accepts-undefined " + in.Details.Name(), What: fmt.Sprintf("%s accepts %08x as %q, not an instruction of that configuration", c.Cfg, c.Word, in.Details.Name()), Case: c}, false
		}
		return &eng.Fail{Sig: "rejects-defined " + exp, What: fmt.Sprintf("%s rejects %08x, which is %s", c.Cfg, c.Word, exp), Case: c}, false
	}
	if err != nil {
		return nil, false
	}
	if n := in.Details.Name(); n != exp {
		return &eng.Fail{Sig: "misnamed " + exp, What: fmt.Sprintf("%s names %08x %q, specification mnemonic is %q", c.Cfg, c.Word, n, exp), Case: c}, true
	}
	if in.ByteLen != 4 {
		return &eng.Fail{Sig: "bytelen", What: fmt.Sprintf("instruction length %d", in.ByteLen), Case: c}, true
	}
	if c.Trail != "" {
		var tb []byte
		fmt.Sscanf(c.Trail, "%x", &tb)
		var in2 model.Instruction
		var err2 error
		p, stack := eng.Catch(func() { in2, err2 = ps.Parse(c.addr(), append(append([]byte{}, bs...), tb...)) })
		if p != nil {
			return &eng.Fail{Sig: "trailing panic " + eng.PanicSite(stack), What: fmt.Sprintf("Parse(%08x+%s) panics: %v", c.Word, c.Trail, p), Case: c}, true
		}
		if err2 != nil || in2.Details.Name() != in.Details.Name() || detailsText(in2) != detailsText(in) ||
			showEffects(in2) != showEffects(in) || in2.ByteLen != in.ByteLen || in2.Type != in.Type {
			return &eng.Fail{Sig: "trailing-bytes-influence", What: fmt.Sprintf("%s: trailing bytes %s change the decoding of %08x", c.Cfg, c.Trail, c.Word), Case: c}, true
		}
	}
	return nil, true
}

func init() {
	checks["C02"] = eng.Check{
		Rule:        "quick: the structured quotient of the word space — all 2^22 combinations of bits[31:20] x funct3 x opcode[6:0] with rd=rs1=0, and for rv32ima/rv64ima additionally each of them with every single rd/rs1 bit set and with rd=rs1=31 — in all 8 configurations; thorough: ALL 2^32 words x 8 configurations. Acceptance and mnemonic compared with a decoder table written from the specification listings. History independence: every instruction of the configuration (3 fillings of its operand bits) and 8 undefined words decoded on a fresh parser right after each of 12 other words (thorough: after every ordered pair of them), rejected and accepted ones of every matcher group; the same words on parsers built with the extension list in descending order; the same words and their byte-reversed forms held in one buffer that a fresh parser is offered twice (the second outcome is judged). Inputs of length 0..3 and trailing bytes {00, ffffffff, the word again} on every accepted quotient word of two configurations. Non-trivial = accepted word.",
		Assumptions: []string{"reference: harness/rvref table (DESIGN.md appendix A): base I + Zicsr + M + A, fence with fm=rd=rs1=0, fence.i/ecall/ebreak exact words, reserved shamt bits zero, lr with rs2=0, aq/rl free"},
		Run: func(r *eng.Run) {
			cfgs := rvx.AllCfgs()
			for ci, cfg := range cfgs {
				pset0 := getParsers()
				ps := pset0[cfg]
				_ = ps
				cfg := cfg
				full := cfg.M && cfg.A
				if r.Quick() {
					r.Par(4096, func(hi int) {
						pset := getParsers()
						defer putParsers(pset)
						ps := pset[cfg]
						for f3 := uint32(0); f3 < 8; f3++ {
							for op := uint32(0); op < 128; op++ {
								base := uint32(hi)<<20 | f3<<12 | op
								vars := []uint32{0}
								if full {
									for b := 7; b <= 11; b++ {
										vars = append(vars, 1<<b)
									}
									for b := 15; b <= 19; b++ {
										vars = append(vars, 1<<b)
									}
									vars = append(vars, 0x1f<<7|0x1f<<15)
								}
								for vi, v := range vars {
									c := c02Case{Cfg: cfg, Word: base | v}
									if full && vi == 0 {
										c.Trail = []string{"00", "ffffffff", fmt.Sprintf("%08x", base)}[hi%3]
									}
									f, acc := c02Word(&ps, c)
									r.Eval(1)
									if acc {
										r.Nontrivial(1)
									}
									if f != nil {
										r.Report(f)
										r.Outcome(f.Sig)
									}
								}
							}
						}
					})
				} else {
					r.Par(1<<16, func(hi int) {
						pset := getParsers()
						defer putParsers(pset)
						ps := pset[cfg]
						var acc, n int
						for lo := uint32(0); lo < 1<<16; lo++ {
							w := uint32(hi)<<16 | lo
							if w&3 != 3 && lo&0xff != 0 { // non-32-bit encodings: sample the low byte only
							}
							f, a := c02Word(&ps, c02Case{Cfg: cfg, Word: w})
							n++
							if a {
								acc++
							}
							if f != nil {
								r.Report(f)
								r.Outcome(f.Sig)
							}
						}
						r.Eval(n)
						r.Nontrivial(acc)
					})
				}
				// history independence: every instruction of the configuration (three fillings of its
				// operand bits) and some undefined words, decoded on a fresh parser right after each of
				// 12 other words (rejected ones, words of other configurations, accepted ones of each
				// matcher group); thorough: after every ordered pair of them
				poison := []uint32{0xffffffff, 0x00000000, 0x0000007f, 0x02c58533 /* mul */, 0x00c5853b /* addw */, 0x0805a52f, /* amoswap.w */
					0x00c58533 /* add */, 0xfffff0b7 /* lui */, 0xfe000ee3 /* beq */, 0x0005a503 /* lw */, 0x00000073 /* ecall */, 0x1005a52f /* lr.w */}
				var targets []uint32
				for _, row := range rvref.Rows(cfg.Ref()) {
					for _, fill := range []uint32{0, 0x00c58593, 0xffffffff} {
						targets = append(targets, row.Match|^row.Mask&fill)
					}
				}
				targets = append(targets, 0xffffffff, 0, 0x0000007f, 0x02c58533, 0x00c5853b, 0x0805a52f, 0x0000600f, 0xc0001073)
				var prefixes [][]uint32
				for _, p := range poison {
					prefixes = append(prefixes, []uint32{p})
				}
				if !r.Quick() {
					for _, p := range poison {
						for _, q := range poison {
							prefixes = append(prefixes, []uint32{p, q})
						}
					}
				}
				r.Par(len(prefixes), func(pi int) {
					for _, t := range targets {
						f, acc := c02Word(nil, c02Case{Cfg: cfg, Word: t, Prefix: prefixes[pi]})
						r.Eval(1)
						if acc {
							r.Nontrivial(1)
						}
						if f != nil {
							r.Report(f)
							r.Outcome(f.Sig)
						}
					}
				})
				// one byte buffer offered twice to a fresh parser: every target, and the byte-reversed
				// form of every target (mostly undefined words)
				for _, t := range targets {
					rev := t<<24 | t>>24 | t<<8&0xff0000 | t>>8&0xff00
					for _, w := range []uint32{t, rev} {
						f, acc := c02Word(nil, c02Case{Cfg: cfg, Word: w, Twice: true})
						r.Eval(1)
						if acc {
							r.Nontrivial(1)
						}
						if f != nil {
							r.Report(f)
							r.Outcome(f.Sig)
						}
					}
				}
				// the same configuration requested with its extension list in descending order: every
				// instruction and the undefined words again
				for _, sp := range []string{"rev"} { // (repeating an extension is documented as undefined)
					if !cfg.M || !cfg.A {
						break
					}
					for _, t := range targets {
						f, acc := c02Word(nil, c02Case{Cfg: cfg, Word: t, Args: sp})
						r.Eval(1)
						if acc {
							r.Nontrivial(1)
						}
						if f != nil {
							r.Report(f)
							r.Outcome(f.Sig)
						}
					}
				}
				// acceptance does not depend on the address: every target at both ends and the middle
				// of the address space (the last instruction slot is 2^64-4) and at unaligned ones
				for _, at := range []string{"0", "4", "1002", "fffffffc", "100000000", "7ffffffffffffffc", "8000000000000000", "fffffffffffffff8", "fffffffffffffffc", "fffffffffffffffd", "ffffffffffffffff"} {
					for _, t := range targets {
						f, acc := c02Word(&ps, c02Case{Cfg: cfg, Word: t, At: at})
						r.Eval(1)
						if acc {
							r.Nontrivial(1)
						}
						if f != nil {
							r.Report(f)
							r.Outcome(f.Sig)
						}
					}
				}
				// short inputs
				for l := 0; l < 4; l++ {
					for _, w := range []uint32{0x00000013, 0xffffffff, 0x00000000, 0x00000073} {
						f, _ := c02Word(&ps, c02Case{Cfg: cfg, Word: w, Short: true, Len: l})
						r.Eval(1)
						r.Report(f)
					}
				}
				putParsers(pset0)
				r.Note("configuration %s done", cfg)
				if ci == 0 {
					r.Sample(c02Case{Cfg: cfg, Word: 0x00c58533, Hex: "00c58533"})
				}
			}
			r.Sample(c02Case{Cfg: cfgs[7], Word: 0x0000100f, Hex: "0000100f", Trail: "ffffffff"})
		},
		Replay: func(r *eng.Run, raw json.RawMessage) *eng.Fail {
			var c c02Case
			if err := json.Unmarshal(raw, &c); err != nil {
				panic(err)
			}
			f, _ := c02Word(nil, c)
			return f
		},
	}
}
