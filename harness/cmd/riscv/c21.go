package main

import (
	"encoding/json"
	"fmt"
	"sort"

	"mltwist/internal/elf"
	"mltwist/internal/parser"
	"mltwist/pkg/expr"
	"mltwist/verifh/eng"
	"mltwist/verifh/rvref"
	"mltwist/verifh/rvx"
)

// C21 — code parsing tiles the code image.

type c21Block struct {
	Begin uint64 `json:"begin"`
	Hex   string `json:"bytes"`
}

type c21Case struct {
	Cfg    rvx.Cfg    `json:"cfg"`
	Blocks []c21Block `json:"blocks"`
}

func effKind(e expr.Effect) string {
	switch x := e.(type) {
	case expr.RegStore:
		return fmt.Sprintf("reg %s w%d", x.Key(), x.Width())
	case expr.MemStore:
		return fmt.Sprintf("mem %s w%d", x.Key(), x.Width())
	}
	return "?"
}

// c21Run judges one image; failures on an image with a block whose last byte is the last
// byte of the address space carry their own signature suffix.
func c21Run(c c21Case) (*eng.Fail, bool) {
	f, valid := c21Run1(c)
	if f != nil {
		for _, b := range c.Blocks {
			if n := uint64(len(b.Hex) / 2); n > 0 && b.Begin+n == 0 {
				f.Sig += " [block ends at 2^64]"
				break
			}
		}
	}
	return f, valid
}

func c21Run1(c c21Case) (*eng.Fail, bool) {
	var vb []elf.VerifBlock
	type blk struct {
		begin uint64
		bs    []byte
	}
	var bl []blk
	// the byte slices handed in are windows of one buffer (spare capacity behind each, filled
	// with a sentinel): nothing may be written behind them
	var backing []byte
	var spans [][2]int
	for _, b := range c.Blocks {
		var bs []byte
		fmt.Sscanf(b.Hex, "%x", &bs)
		spans = append(spans, [2]int{len(backing), len(backing) + len(bs)})
		backing = append(backing, bs...)
		backing = append(backing, 0xee, 0xee, 0xee, 0xee, 0xee, 0xee, 0xee, 0xee)
	}
	backingCopy := append([]byte{}, backing...)
	for i, b := range c.Blocks {
		bs := backing[spans[i][0]:spans[i][1]]
		vb = append(vb, elf.VerifBlock{Begin: modelAddr(b.Begin), Bytes: bs})
		bl = append(bl, blk{b.Begin, append([]byte{}, bs...)})
	}
	defer func() { _ = backingCopy }()
	mem, err := elf.VerifNewMemory(vb)
	if err != nil {
		return nil, false // overlapping layout: not a code image
	}
	// one fresh parser per image, as the tool creates one per program
	ps := rvx.Parser(c.Cfg)
	var ins []parser.Instruction
	var perr error
	p, stack := eng.Catch(func() { ins, perr = parser.Parse(mem, ps) })
	if p == nil && fmt.Sprintf("%x", backing) != fmt.Sprintf("%x", backingCopy) {
		return &eng.Fail{Sig: "image bytes altered", What: fmt.Sprintf("building the block store / parsing changed the buffer the blocks were windows of: %x -> %x", backingCopy, backing), Case: c}, false
	}
	if p != nil {
		return &eng.Fail{Sig: "Parse panic " + eng.PanicSite(stack), What: fmt.Sprintf("parser.Parse panics: %v", p), Case: c}, false
	}
	// expected walk
	sort.Slice(bl, func(i, j int) bool { return bl[i].begin < bl[j].begin })
	type exp struct {
		addr uint64
		word uint32
		name string
	}
	var want []exp
	fail := ""
walk:
	for _, b := range bl {
		for pos := 0; pos < len(b.bs); pos += 4 {
			if len(b.bs)-pos < 4 {
				fail = fmt.Sprintf("truncated word at %#x", b.begin+uint64(pos))
				break walk
			}
			w := uint32(b.bs[pos]) | uint32(b.bs[pos+1])<<8 | uint32(b.bs[pos+2])<<16 | uint32(b.bs[pos+3])<<24
			n := rvref.DecodeFast(w, c.Cfg.Ref())
			if n == "" {
				fail = fmt.Sprintf("undecodable word %08x at %#x", w, b.begin+uint64(pos))
				break walk
			}
			want = append(want, exp{b.begin + uint64(pos), w, n})
		}
	}
	if (perr != nil) != (fail != "") {
		if perr != nil {
			return &eng.Fail{Sig: "Parse fails-on-valid-image", What: fmt.Sprintf("parser.Parse fails (%v) although every position decodes", perr), Case: c}, false
		}
		return &eng.Fail{Sig: "Parse accepts-invalid-image", What: "parser.Parse succeeds although: " + fail, Case: c}, false
	}
	if perr != nil {
		return nil, true
	}
	if len(ins) != len(want) {
		return &eng.Fail{Sig: "Parse instruction-count", What: fmt.Sprintf("%d instructions, expected %d", len(ins), len(want)), Case: c}, true
	}
	for i, in := range ins {
		w := want[i]
		if uint64(in.Addr) != w.addr || uint64(in.Begin()) != w.addr || uint64(in.End()) != w.addr+4 || in.Len() != 4 {
			return &eng.Fail{Sig: "Parse tiling", What: fmt.Sprintf("instruction %d at %#x..%#x, expected %#x..%#x", i, in.Begin(), in.End(), w.addr, w.addr+4), Case: c}, true
		}
		if fmt.Sprintf("%x", in.Bytes) != fmt.Sprintf("%x", rvx.WordBytes(w.word)) {
			return &eng.Fail{Sig: "Parse bytes", What: fmt.Sprintf("instruction at %#x carries bytes %x, image has %x", w.addr, in.Bytes, rvx.WordBytes(w.word)), Case: c}, true
		}
		ref, err := ps.Parse(modelAddr(w.addr), rvx.WordBytes(w.word))
		if err != nil {
			continue
		}
		if detailsText2(in.Details) != detailsText2(ref.Details) || in.Type != ref.Type {
			return &eng.Fail{Sig: "Parse details", What: fmt.Sprintf("instruction at %#x is %q, front end says %q", w.addr, detailsText2(in.Details), detailsText2(ref.Details)), Case: c}, true
		}
		if len(in.Effects) != len(ref.Effects) {
			return &eng.Fail{Sig: "Parse effect-count", What: fmt.Sprintf("instruction at %#x has %d effects, lifting has %d", w.addr, len(in.Effects), len(ref.Effects)), Case: c}, true
		}
		for k := range in.Effects {
			if effKind(in.Effects[k]) != effKind(ref.Effects[k]) {
				return &eng.Fail{Sig: "Parse effect-kind", What: fmt.Sprintf("effect %d of %#x is %s, lifting has %s", k, w.addr, effKind(in.Effects[k]), effKind(ref.Effects[k])), Case: c}, true
			}
		}
		for _, seed := range []uint64{1, 2} {
			for _, v := range [][2]uint64{{0, 0}, {5, 5}, {0x8000000000000000, 1}, {0x1234, 0xffffffffffffffff}} {
				cc := c01Case{Cfg: c.Cfg, Word: w.word, PC: w.addr, VA: v[0], VB: v[1], Seed: seed}
				pre := cc.pre()
				pa, _ := rvx.Apply(in.Effects, pre)
				pb, _ := rvx.Apply(ref.Effects, pre)
				if da, db := postDigest(pa), postDigest(pb); da != db {
					return &eng.Fail{Sig: "Parse effects-not-equivalent " + w.name, What: fmt.Sprintf("folded effects of %s at %#x differ from the lifting: {%s} vs {%s}", w.name, w.addr, da, db), Case: c}, true
				}
				// and with the reference machine (independent of any state the parser may keep)
				if !pa.Wrap {
					m := rvx.RefRun(c.Cfg, w.word, w.name, w.addr, pre)
					if cls, diff := rvx.Compare(c.Cfg, pa, m, w.addr, pre); cls != "" {
						return &eng.Fail{Sig: "Parse effects-wrong " + w.name + " " + cls, What: fmt.Sprintf("effects of %s at %#x in the parsed image: %s", w.name, w.addr, diff), Case: c}, true
					}
				}
			}
		}
	}
	return nil, true
}

func init() {
	checks["C21"] = eng.Check{
		Rule:        "code images of 1..2 blocks (at 0x1000 and 0x2000 / directly adjacent / 0x1000 and 2^64-16 / 0x1000 and a block ending exactly at 2^64 / with an empty block before, between or directly behind), each block every sequence of <=3 words from {addi, sw, beq, jal, lr.w(A only), auipc, jalr (linking), 00000000, ffffffff} followed by 0..3 extra bytes (second block 1 word in quick), in both input orders, rv64ima and rv32i: parser.Parse must fail iff the reference walk meets an undecodable or truncated word, else yield the exact tiling with the image bytes, the front end's text/type and effects of equal kinds/keys/widths that are equivalent to the front end's lifting under 8 pre-states and agree with the reference machine (so a parser that keeps state across positions cannot hide behind its own lifting). Plus, for rv64ima and rv32ima, every mnemonic with all 4^3 choices of rd, rs1, rs2 from {x0,x5,x6,x31} (every register coincidence) in two-word images at two addresses; plus an image of 20 blocks in sorted, reversed, interleaved and rotated order. Non-trivial = image whose layout is valid (non-overlapping).",
		Assumptions: []string{"blocks are non-empty and built through the real elf.newBlock/newMemory (hook)"},
		Run: func(r *eng.Run) {
			words := []uint32{0x00100093, 0x00112023, 0x00208463, 0xffdff06f, 0x1000a1af, 0x00001197, 0x000300e7, 0x00000000, 0xffffffff}
			var contents []string
			var gen func(prefix string, n int)
			gen = func(prefix string, n int) {
				if prefix != "" {
					for _, extra := range []string{"", "13", "1300", "130000"} {
						contents = append(contents, prefix+extra)
					}
				}
				if n == 0 {
					return
				}
				for _, w := range words {
					gen(prefix+fmt.Sprintf("%x", rvx.WordBytes(w)), n-1)
				}
			}
			gen("", 3)
			small := contents
			if r.Quick() {
				small = nil
				for _, c := range contents {
					if len(c) <= 2*7 {
						small = append(small, c)
					}
				}
			}
			r.Note("block contents=%d second-block contents=%d", len(contents), len(small))
			cfgs := []rvx.Cfg{{XLEN: 64, M: true, A: true}, {XLEN: 32}}
			do := func(c c21Case) {
				f, valid := c21Run(c)
				r.Eval(1)
				if valid {
					r.Nontrivial(1)
				}
				if f != nil {
					r.Report(f)
					r.Outcome(f.Sig)
				}
			}
			for _, cfg := range cfgs {
				cfg := cfg
				r.Par(len(contents), func(i int) {
					do(c21Case{cfg, []c21Block{{0x1000, contents[i]}}})
					if cfg.XLEN == 32 && i%3 != 0 {
						return
					}
					for _, s := range small {
						do(c21Case{cfg, []c21Block{{0x1000, contents[i]}, {0x2000, s}}})
						do(c21Case{cfg, []c21Block{{0x2000, s}, {0x1000, contents[i]}}})
						// directly adjacent
						do(c21Case{cfg, []c21Block{{0x1000 + uint64(len(contents[i])/2), s}, {0x1000, contents[i]}}})
					}
					// an empty block (a zero-sized segment) before, between and behind: it holds no instruction
					do(c21Case{cfg, []c21Block{{0x800, ""}, {0x1000, contents[i]}}})
					do(c21Case{cfg, []c21Block{{0x1000, contents[i]}, {0x1800, ""}, {0x2000, "93001000"}}})
					do(c21Case{cfg, []c21Block{{0x1000, contents[i]}, {0x1000 + uint64(len(contents[i])/2), ""}}})
					if cfg.XLEN == 64 {
						do(c21Case{cfg, []c21Block{{0xfffffffffffffff0, contents[i]}, {0x1000, "93001000"}}})
						// ... and ending exactly at 2^64
						do(c21Case{cfg, []c21Block{{-uint64(len(contents[i]) / 2), contents[i]}, {0x1000, "93001000"}}})
					}
				})
			}
			// images of 20 blocks (more than a library sort handles by insertion; some directly
			// adjacent) handed over in sorted, reversed, interleaved and rotated order
			{
				const nm = 20
				var many []c21Block
				for i := 0; i < nm; i++ {
					a := 0x1000 + uint64(i)*8
					if i%3 == 2 {
						a += 0x100
					}
					hex := fmt.Sprintf("%x", rvx.WordBytes(words[i%6]))
					if i%2 == 1 {
						hex += fmt.Sprintf("%x", rvx.WordBytes(words[(i+1)%6]))
					}
					many = append(many, c21Block{a, hex})
				}
				perms := []func(i int) int{
					func(i int) int { return i },
					func(i int) int { return nm - 1 - i },
					func(i int) int {
						if i < nm/2 {
							return 2 * i
						}
						return 2*(i-nm/2) + 1
					},
				}
				for k := 1; k < nm; k += 3 {
					k := k
					perms = append(perms, func(i int) int { return (i + k) % nm })
				}
				for _, pf := range perms {
					var bl []c21Block
					for i := 0; i < nm; i++ {
						bl = append(bl, many[pf(i)])
					}
					do(c21Case{cfgs[0], bl})
				}
			}
			// every mnemonic with every register coincidence (all 4^3 choices of rd, rs1, rs2 from
			// {x0, x5, x6, x31}): one-word images followed by an addi, at two addresses
			for _, cfg := range []rvx.Cfg{{XLEN: 64, M: true, A: true}, {XLEN: 32, M: true, A: true}} {
				cfg := cfg
				rows := rvref.Rows(cfg.Ref())
				r.Par(len(rows), func(i int) {
					regs := []uint32{0, 5, 6, 31}
					seen := map[uint32]bool{}
					for _, rd := range regs {
						for _, rs1 := range regs {
							for _, rs2 := range regs {
								ws := buildWords(rows[i], rd, rs1, rs2, false)
								if len(ws) > 3 {
									ws = []uint32{ws[0], ws[len(ws)/2], ws[len(ws)-1]}
								}
								for _, w := range ws {
									if seen[w] {
										continue
									}
									seen[w] = true
									hex := fmt.Sprintf("%x", rvx.WordBytes(w))
									do(c21Case{cfg, []c21Block{{0x1000, hex + "93001000"}}})
									do(c21Case{cfg, []c21Block{{0x7ffffff0, "93001000" + hex}}})
								}
							}
						}
					}
				})
			}
			r.Sample(c21Case{cfgs[0], []c21Block{{0x2000, "9300100013"}, {0x1000, "2320110063842000"}}})
		},
		Replay: func(r *eng.Run, raw json.RawMessage) *eng.Fail {
			var c c21Case
			if err := json.Unmarshal(raw, &c); err != nil {
				panic(err)
			}
			f, _ := c21Run(c)
			return f
		},
	}
}

func detailsText2(d interface{ String() string }) (txt string) {
	if p, _ := eng.Catch(func() { txt = d.String() }); p != nil {
		return fmt.Sprintf("<String() panics: %v>", p)
	}
	return txt
}
