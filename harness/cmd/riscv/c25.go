package main

import (
	"crypto/sha1"
	"encoding/json"
	"fmt"
	"strings"
	"sync"

	"mltwist/pkg/model"
	"mltwist/verifh/eng"
	"mltwist/verifh/rvref"
	"mltwist/verifh/rvx"
)

// C25 — disassembly text is faithful.

type c25Case struct {
	Cfg   rvx.Cfg `json:"cfg"`
	Word  uint32  `json:"word"`
	Other uint32  `json:"other,omitempty"` // second word with the same text
	Hex   string  `json:"hex,omitempty"`
}

const c25PC = 0x10000

// behaviourDiffers looks for a pre-state on which the effects of a and b
// differ; returns a description of the witness.
func behaviourDiffers(cfg rvx.Cfg, a, b model.Instruction, wa, wb uint32) string {
	for _, seed := range []uint64{1, 2, 3} {
		for _, v := range [][2]uint64{{0, 0}, {1, 2}, {0x8000000000000001, 3}, {0xffffffffffffffff, 0x7fffffffffffffff}, {0x123456789abcdef0, 0x0fedcba987654321}} {
			ca := c01Case{Cfg: cfg, Word: wa, PC: c25PC, VA: v[0], VB: v[1], Seed: seed}
			pre := ca.pre()
			// same pre-state for both (registers named by word a and b may differ: fill both)
			cb := c01Case{Cfg: cfg, Word: wb, PC: c25PC, VA: v[0], VB: v[1], Seed: seed}
			preB := cb.pre()
			for i := range pre.X {
				if pre.X[i] != preB.X[i] {
					// use one common state: take a's
					preB = pre
					break
				}
			}
			pa, _ := rvx.Apply(a.Effects, pre)
			pb, _ := rvx.Apply(b.Effects, pre)
			da, db := postDigest(pa), postDigest(pb)
			if da != db {
				return fmt.Sprintf("with rs1=%#x rs2=%#x seed=%d: {%s} vs {%s}", v[0], v[1], seed, da, db)
			}
		}
	}
	return ""
}

func postDigest(p *rvx.Post) string {
	var parts []string
	for k, v := range p.Regs {
		parts = append(parts, fmt.Sprintf("%s=%x", k, v))
	}
	for a, b := range p.Mem {
		parts = append(parts, fmt.Sprintf("[%s]=%02x", a, b))
	}
	sortStrings(parts)
	return strings.Join(parts, " ")
}

func sortStrings(s []string) {
	for i := 1; i < len(s); i++ {
		for j := i; j > 0 && s[j] < s[j-1]; j-- {
			s[j], s[j-1] = s[j-1], s[j]
		}
	}
}

// c25Single checks the per-word oracles (mnemonic prefix, offset(base)).
func c25Single(cfg rvx.Cfg, w uint32, in model.Instruction, name string) *eng.Fail {
	c := c25Case{Cfg: cfg, Word: w, Hex: fmt.Sprintf("%08x", w)}
	tag := fmt.Sprintf("rv%d %s", cfg.XLEN, name)
	var txt string
	if p, stack := eng.Catch(func() { txt = in.Details.String() }); p != nil {
		return &eng.Fail{Sig: tag + " String panic " + eng.PanicSite(stack), What: fmt.Sprintf("String() of %08x panics: %v", w, p), Case: c}
	}
	if !strings.HasPrefix(txt, in.Details.Name()+" ") && txt != in.Details.Name() {
		return &eng.Fail{Sig: tag + " text-without-mnemonic", What: fmt.Sprintf("text %q does not start with mnemonic %q", txt, in.Details.Name()), Case: c}
	}
	switch rvref.Format(name) {
	case "I":
		if name[0] == 'l' && name != "lui" {
			want := fmt.Sprintf("%d(x%d)", rvref.ImmI(w), w>>15&31)
			if !strings.Contains(txt, want) || !strings.Contains(txt, fmt.Sprintf("x%d,", w>>7&31)) {
				return &eng.Fail{Sig: tag + " load-operands", What: fmt.Sprintf("text %q of %08x lacks rd and %s", txt, w, want), Case: c}
			}
		}
	case "S":
		want := fmt.Sprintf("%d(x%d)", rvref.ImmS(w), w>>15&31)
		if !strings.Contains(txt, want) || !strings.Contains(txt, fmt.Sprintf("x%d,", w>>20&31)) {
			return &eng.Fail{Sig: tag + " store-operands", What: fmt.Sprintf("text %q of %08x lacks source register and %s", txt, w, want), Case: c}
		}
	}
	return nil
}

func c25Pair(c c25Case) *eng.Fail {
	pset := getParsers()
	defer putParsers(pset)
	ps := pset[c.Cfg]
	a, e1 := ps.Parse(c25PC, rvx.WordBytes(c.Word))
	if e1 != nil {
		return nil
	}
	name := rvref.DecodeFast(c.Word, c.Cfg.Ref())
	if f := c25Single(c.Cfg, c.Word, a, name); f != nil {
		return f
	}
	if c.Other == 0 {
		return nil
	}
	b, e2 := ps.Parse(c25PC, rvx.WordBytes(c.Other))
	if e2 != nil || detailsText(a) != detailsText(b) {
		return nil
	}
	if wit := behaviourDiffers(c.Cfg, a, b, c.Word, c.Other); wit != "" {
		return &eng.Fail{Sig: fmt.Sprintf("rv%d %s same-text-different-behaviour", c.Cfg.XLEN, name),
			What: fmt.Sprintf("%s: %08x and %08x are both shown as %q but behave differently %s", c.Cfg, c.Word, c.Other, detailsText(a), wit), Case: c}
	}
	return nil
}

func init() {
	checks["C25"] = eng.Check{
		Rule:        "for rv32ima and rv64ima, per mnemonic: words with every register choice from {x0,x1,x2,x31} (thorough: all 32) in each field x an immediate alphabet, plus ALL 4096 I/S/B immediates, all shift amounts, all 4096 CSR numbers x all 32 uimm/rs1, every aq/rl and fence pred/succ setting, (thorough: all 2^20 U/J immediates; quick every 61st); texts grouped per variant ACROSS all mnemonics: two words with identical text must have identical lifted effects or, failing that, no valuation on which they differ (witness required). Every text must start with its mnemonic; loads/stores must contain offset(base). Non-trivial = distinct texts seen.",
		Assumptions: []string{"behavioural difference is only reported with a concrete witness state (15 pre-states tried)", "fixed address 0x10000"},
		Run: func(r *eng.Run) {
			type job struct {
				cfg rvx.Cfg
				row rvref.Row
			}
			var jobs []job
			for _, x := range []int{32, 64} {
				cfg := rvx.Cfg{XLEN: x, M: true, A: true}
				for _, row := range rvref.Rows(cfg.Ref()) {
					jobs = append(jobs, job{cfg, row})
				}
			}
			regs := []uint32{0, 1, 2, 31}
			if !r.Quick() {
				regs = nil
				for i := uint32(0); i < 32; i++ {
					regs = append(regs, i)
				}
			}
			type gent struct {
				dig  [20]byte
				word uint32
			}
			var gmu sync.Mutex
			global := map[int]map[string]gent{32: {}, 64: {}} // per variant: text -> first (digest, word) over ALL mnemonics
			r.Par(len(jobs), func(ji int) {
				j := jobs[ji]
				pset := getParsers()
				defer putParsers(pset)
				ps := pset[j.cfg]
				type ent struct {
					dig  [20]byte
					word uint32
				}
				seen := map[string]ent{}
				visit := func(w uint32) {
					if rvref.DecodeFast(w, j.cfg.Ref()) != j.row.Name {
						return
					}
					in, err := ps.Parse(c25PC, rvx.WordBytes(w))
					r.Eval(1)
					if err != nil {
						return
					}
					if f := c25Single(j.cfg, w, in, j.row.Name); f != nil {
						r.Report(f)
						return
					}
					txt := detailsText(in)
					d := sha1.Sum([]byte(showEffects(in)))
					if e, ok := seen[txt]; ok {
						if e.dig != d {
							if f := c25Pair(c25Case{Cfg: j.cfg, Word: e.word, Other: w}); f != nil {
								r.Report(f)
								r.Outcome(f.Sig)
							}
						}
						return
					}
					seen[txt] = ent{d, w}
					r.Nontrivial(1)
				}
				f := rvref.Format(j.row.Name)
				free := ^j.row.Mask
				// (1) register choices x alphabet immediates
				for _, rd := range regs {
					for _, r1 := range regs {
						for _, r2 := range regs {
							for _, w := range buildWords(j.row, rd, r1, r2, false) {
								visit(w)
							}
							if f != "R" && f != "AMO" && f != "S" && f != "B" {
								break
							}
						}
					}
				}
				// (2) all immediates / free bits with fixed registers
				switch f {
				case "I", "S", "B":
					for _, w := range buildWords(j.row, 3, 1, 2, true) {
						visit(w)
					}
				case "CSR", "CSRI":
					for n := uint32(0); n < 4096; n++ {
						for u := uint32(0); u < 32; u++ {
							if n%97 != 0 && u > 1 && r.Quick() {
								continue
							}
							visit(j.row.Match | 3<<7 | u<<15 | n<<20)
						}
					}
				case "U", "J":
					step := uint32(1)
					if r.Quick() {
						step = 61
					}
					for imm := uint32(0); imm < 1<<20; imm += step {
						visit(j.row.Match | 3<<7 | imm<<12)
					}
				case "FENCE":
					for b := uint32(0); b < 256; b++ {
						visit(j.row.Match | b<<20)
					}
				case "AMO", "LR":
					for b := uint32(0); b < 4; b++ {
						visit(j.row.Match | (3<<7|1<<15|2<<20|b<<25)&free)
					}
				}
				r.Outcome(fmt.Sprintf("%s texts=%d", j.row.Name, len(seen) > 0))
				// texts must also be unique ACROSS mnemonics (e.g. a clipped width suffix)
				gmu.Lock()
				g := global[j.cfg.XLEN]
				type pair struct{ a, b uint32 }
				var clashes []pair
				for txt, e := range seen {
					if o, ok := g[txt]; ok {
						if o.dig != e.dig {
							clashes = append(clashes, pair{o.word, e.word})
						}
					} else {
						g[txt] = gent{e.dig, e.word}
					}
				}
				gmu.Unlock()
				for _, cl := range clashes {
					if f := c25Pair(c25Case{Cfg: j.cfg, Word: cl.a, Other: cl.b}); f != nil {
						r.Report(f)
						r.Outcome(f.Sig)
					}
				}
			})
			r.Sample(c25Case{Cfg: rvx.Cfg{XLEN: 64, M: true, A: true}, Word: 0x00209193, Other: 0x00309193, Hex: "slli x3,x1,2 / slli x3,x1,3"})
		},
		Replay: func(r *eng.Run, raw json.RawMessage) *eng.Fail {
			var c c25Case
			if err := json.Unmarshal(raw, &c); err != nil {
				panic(err)
			}
			return c25Pair(c)
		},
	}
}
