// Command riscv hosts the checks over the RISC-V front end (C01, C02, C21, C25).
package main

import "mltwist/verifh/eng"

var checks = map[string]eng.Check{}

func main() { eng.Main(checks) }
