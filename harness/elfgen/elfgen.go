// Package elfgen writes small ELF64 little-endian files from a description.
package elfgen

import (
	"bytes"
	"encoding/binary"
	"fmt"
)

const (
	ET_NONE = 0
	ET_REL  = 1
	ET_EXEC = 2
	ET_DYN  = 3
	ET_CORE = 4

	SHT_PROGBITS = 1
	SHT_NOTE     = 7
	SHT_NOBITS   = 8

	SHF_ALLOC     = 2
	SHF_EXECINSTR = 4

	PT_LOAD = 1
	PT_NOTE = 4
)

// Section describes a user section. Data is the file content (ignored for
// NOBITS, where Size gives the size).
type Section struct {
	Type  uint32 `json:"type"`
	Flags uint64 `json:"flags"`
	Addr  uint64 `json:"addr"`
	Data  []byte `json:"data,omitempty"`
	Size  uint64 `json:"size"` // = len(Data) unless NOBITS
}

// Prog describes a program header; Data is its file content (Filesz bytes).
type Prog struct {
	Type  uint32 `json:"type"`
	Vaddr uint64 `json:"vaddr"`
	Data  []byte `json:"data,omitempty"`
	Memsz uint64 `json:"memsz"`
	// Claim is added to p_filesz beyond len(Data): the header then claims
	// file bytes which belong to whatever follows in the file, or lie past
	// its end.
	Claim uint64 `json:"claim,omitempty"`
	// PaddrDelta: p_paddr = Vaddr + PaddrDelta (a load address different from the virtual one)
	PaddrDelta uint64 `json:"paddr_delta,omitempty"`
}

// File is the description.
type File struct {
	Type     uint16    `json:"type"`
	Entry    uint64    `json:"entry"`
	Sections []Section `json:"sections"`
	Progs    []Prog    `json:"progs"`
	// NoNull: the section header table does not start with the customary null entry; the
	// first described section is entry 0.
	NoNull bool `json:"no_null_section,omitempty"`
}

func (f File) String() string {
	return fmt.Sprintf("type=%d entry=%#x sections=%+v progs=%+v", f.Type, f.Entry, f.Sections, f.Progs)
}

// Bytes renders the file.
func (f File) Bytes() []byte {
	le := binary.LittleEndian
	const ehsize, phentsize, shentsize = 64, 56, 64
	phoff := uint64(ehsize)
	off := phoff + uint64(len(f.Progs))*phentsize
	// section data
	secOff := make([]uint64, len(f.Sections))
	var body bytes.Buffer
	for i, s := range f.Sections {
		secOff[i] = off + uint64(body.Len())
		if s.Type != SHT_NOBITS {
			body.Write(s.Data)
		}
	}
	progOff := make([]uint64, len(f.Progs))
	for i, p := range f.Progs {
		// keep offset congruent to vaddr modulo 8 (not required by the loader, harmless)
		for (off+uint64(body.Len()))%8 != p.Vaddr%8 {
			body.WriteByte(0xEE)
		}
		progOff[i] = off + uint64(body.Len())
		body.Write(p.Data)
	}
	// shstrtab
	var strtab bytes.Buffer
	strtab.WriteByte(0)
	names := make([]uint32, len(f.Sections))
	for i := range f.Sections {
		names[i] = uint32(strtab.Len())
		fmt.Fprintf(&strtab, ".s%d", i)
		strtab.WriteByte(0)
	}
	shstrName := uint32(strtab.Len())
	strtab.WriteString(".shstrtab")
	strtab.WriteByte(0)
	strOff := off + uint64(body.Len())
	body.Write(strtab.Bytes())
	for (off+uint64(body.Len()))%8 != 0 {
		body.WriteByte(0)
	}
	shoff := off + uint64(body.Len())
	shnum := len(f.Sections) + 2
	if f.NoNull {
		shnum--
	}

	var out bytes.Buffer
	eh := make([]byte, ehsize)
	copy(eh, []byte{0x7f, 'E', 'L', 'F', 2, 1, 1, 0})
	le.PutUint16(eh[16:], f.Type)
	le.PutUint16(eh[18:], 243)
	le.PutUint32(eh[20:], 1)
	le.PutUint64(eh[24:], f.Entry)
	le.PutUint64(eh[32:], phoff)
	le.PutUint64(eh[40:], shoff)
	le.PutUint32(eh[48:], 0)
	le.PutUint16(eh[52:], ehsize)
	le.PutUint16(eh[54:], phentsize)
	le.PutUint16(eh[56:], uint16(len(f.Progs)))
	le.PutUint16(eh[58:], shentsize)
	le.PutUint16(eh[60:], uint16(shnum))
	le.PutUint16(eh[62:], uint16(shnum-1))
	if len(f.Progs) == 0 {
		le.PutUint64(eh[32:], 0)
	}
	out.Write(eh)
	for i, p := range f.Progs {
		ph := make([]byte, phentsize)
		le.PutUint32(ph[0:], p.Type)
		le.PutUint32(ph[4:], 5)
		le.PutUint64(ph[8:], progOff[i])
		le.PutUint64(ph[16:], p.Vaddr)
		le.PutUint64(ph[24:], p.Vaddr+p.PaddrDelta)
		le.PutUint64(ph[32:], uint64(len(p.Data))+p.Claim)
		le.PutUint64(ph[40:], p.Memsz)
		le.PutUint64(ph[48:], 1)
		out.Write(ph)
	}
	out.Write(body.Bytes())
	sh := func(name, typ uint32, flags, addr, offset, size uint64) {
		b := make([]byte, shentsize)
		le.PutUint32(b[0:], name)
		le.PutUint32(b[4:], typ)
		le.PutUint64(b[8:], flags)
		le.PutUint64(b[16:], addr)
		le.PutUint64(b[24:], offset)
		le.PutUint64(b[32:], size)
		le.PutUint64(b[48:], 1)
		out.Write(b)
	}
	if !f.NoNull {
		sh(0, 0, 0, 0, 0, 0)
	}
	for i, s := range f.Sections {
		size := uint64(len(s.Data))
		if s.Type == SHT_NOBITS {
			size = s.Size
		}
		sh(names[i], s.Type, s.Flags, s.Addr, secOff[i], size)
	}
	sh(shstrName, 3, 0, 0, strOff, uint64(strtab.Len()))
	return out.Bytes()
}

// ProgFileBytes returns the bytes of the rendered file that program header i
// designates: [p_offset, p_offset+p_filesz) cut at the end of the file.
func ProgFileBytes(file []byte, i int) []byte {
	le := binary.LittleEndian
	ph := file[64+56*i:]
	off, sz := le.Uint64(ph[8:]), le.Uint64(ph[32:])
	if off > uint64(len(file)) {
		return nil
	}
	end := off + sz
	if end > uint64(len(file)) || end < off {
		end = uint64(len(file))
	}
	return append([]byte{}, file[off:end]...)
}
