// Package emu drives the real emulator (deps.Code + emulator.Emulator with the
// memory layering of cmd/mltwist: Overlay(Bytes(image), Sparse)) next to the
// reference RISC-V machine and compares them step by step.
package emu

import (
	"fmt"
	"math/big"
	"sort"
	"strconv"
	"strings"

	"mltwist/internal/deps"
	"mltwist/internal/emulator"
	"mltwist/internal/riscv"
	"mltwist/internal/state"
	"mltwist/internal/state/memory"
	"mltwist/pkg/expr"
	"mltwist/pkg/model"
	"mltwist/verifh/eng"
	"mltwist/verifh/ir"
	"mltwist/verifh/prog"
	"mltwist/verifh/rvref"
)

// Init describes an initial machine state.
type Init struct {
	X    map[int]uint64 `json:"x,omitempty"` // explicit registers; others derived from Seed
	Seed uint64         `json:"seed"`
	// Preload: registers listed here are stored into State before the run
	// (initial knowledge) instead of being supplied by the provider.
	PreloadRegs []int `json:"preload_regs,omitempty"`
	// PreloadMem: address ranges written into the sparse layer beforehand.
	PreloadMem [][2]uint64 `json:"preload_mem,omitempty"` // [addr, len]
	// Small: derived register values are below 2^31.
	Small bool `json:"small,omitempty"`
	// DataImage: [addr, len] ranges of the image that hold data, not executed code: a store
	// there is an ordinary store (stores into other image bytes are self-modification, which
	// is outside the property's domain).
	DataImage [][2]uint64 `json:"data_image,omitempty"`
}

func (in *Init) isData(a uint64) bool {
	for _, r := range in.DataImage {
		if a-r[0] < r[1] {
			return true
		}
	}
	return false
}

func mix(a, seed uint64) uint64 {
	h := a*0x9e3779b97f4a7c15 ^ seed*0xc2b2ae3d27d4eb4f
	h ^= h >> 31
	h *= 0xd6e8feb86659fd93
	h ^= h >> 29
	return h
}

// Reg is the initial value of register n.
func (in *Init) Reg(n int) uint64 {
	if v, ok := in.X[n]; ok {
		return v
	}
	v := mix(uint64(n)+77, in.Seed)
	if in.Small {
		v &= 0x3fffffff
	}
	return v
}

// CSR initial value.
func (in *Init) CSR(n uint32) uint64 { return mix(uint64(n)+0x5000, in.Seed) }

// MemByte is the initial content of memory outside the image.
func (in *Init) MemByte(a uint64) byte { return byte(mix(a, in.Seed+3) >> 11) }

// Req is one provider request.
type Req struct {
	Reg  expr.Key
	Mem  bool
	Addr uint64
	W    int
	Step int
}

// Provider implements emulator.StateProvider and logs requests.
type Provider struct {
	in   *Init
	Reqs []Req
	step int
}

func (p *Provider) Register(key expr.Key, w expr.Width) expr.Const {
	p.Reqs = append(p.Reqs, Req{Reg: key, W: int(w), Step: p.step})
	return ir.ConstU(p.in.regByKey(key), 8).WithWidth(w)
}

func (in *Init) regByKey(key expr.Key) uint64 {
	s := string(key)
	if strings.HasPrefix(s, "csr") {
		n, _ := strconv.Atoi(s[3:])
		return in.CSR(uint32(n))
	}
	if strings.HasPrefix(s, "x") {
		if n, err := strconv.Atoi(s[1:]); err == nil {
			return in.Reg(n)
		}
	}
	// any other (synthetic) register: one of three nearby aligned addresses, so that
	// memory accesses through different registers alias or not depending on the seed
	h := uint64(0)
	for i := 0; i < len(s); i++ {
		h = h*131 + uint64(s[i])
	}
	return 0x8000 + 8*(mix(h, in.Seed)%3)
}

func (p *Provider) Memory(key expr.Key, addr model.Addr, w expr.Width) expr.Const {
	p.Reqs = append(p.Reqs, Req{Mem: true, Addr: uint64(addr), W: int(w), Step: p.step})
	bs := make([]byte, w)
	for i := range bs {
		bs[i] = p.in.MemByte(uint64(addr) + uint64(i))
	}
	return expr.NewConst(bs, w)
}

// Machine couples the real emulator with the reference.
type Machine struct {
	Code  *deps.Code
	Emu   *emulator.Emulator
	State *state.State
	Prov  *Provider
	Ref   *rvref.Machine
	In    *Init
	Segs  []prog.Seg
	// image bytes by address
	image map[uint64]byte
	// words by original address
	words map[uint64]uint32
	Steps int
	// known: what the emulator has been told / has written (for C04)
	KnownReg map[expr.Key]bool
	KnownMem map[uint64]bool
	// Narrow: registers supplied by the provider at less than 8 bytes and not written since.
	Narrow  map[expr.Key]int
	SelfMod bool
	// LastRegWrites lists the register keys written by the last step.
	LastRegWrites []expr.Key
	tainted       bool
}

// New builds the machine on an existing code model (which may have been
// reordered) starting at ip.
func New(code *deps.Code, segs []prog.Seg, ip uint64, in *Init) (*Machine, error) {
	m := &Machine{Code: code, In: in, Segs: segs, image: map[uint64]byte{}, words: map[uint64]uint32{},
		KnownReg: map[expr.Key]bool{}, KnownMem: map[uint64]bool{}, Narrow: map[expr.Key]int{}}
	var blocks []memory.ByteBlock
	for _, s := range segs {
		img := prog.Image(s.Words)
		blocks = append(blocks, byteBlock{model.Addr(s.Base), img})
		for i, b := range img {
			m.image[s.Base+uint64(i)] = b
		}
		for i, w := range s.Words {
			m.words[s.Base+uint64(4*i)] = w
		}
	}
	bm, err := memory.NewBytes(blocks)
	if err != nil {
		return nil, err
	}
	sparse := memory.NewSparse()
	st := &state.State{Regs: state.NewRegMap(), Mems: memory.MemMap{riscv.MemoryKey: memory.NewOverlay(bm, sparse)}}
	for _, n := range in.PreloadRegs {
		k := expr.Key("x" + strconv.Itoa(n))
		st.Regs.Store(k, ir.ConstU(in.Reg(n), 8), 8)
		m.KnownReg[k] = true
	}
	for _, r := range in.PreloadMem {
		bs := make([]byte, r[1])
		for i := range bs {
			bs[i] = in.MemByte(r[0] + uint64(i))
			m.KnownMem[r[0]+uint64(i)] = true
		}
		sparse.Store(model.Addr(r[0]), expr.NewConst(bs, expr.Width(r[1])), expr.Width(r[1]))
	}
	m.State = st
	m.Prov = &Provider{in: in}
	m.Emu = emulator.New(code, model.Addr(ip), m.Prov, st)
	m.Ref = rvref.New(prog.Ref64)
	m.Ref.PC = ip
	for n := 1; n < 32; n++ {
		m.Ref.X[n] = in.Reg(n)
	}
	m.Ref.CSRInit = in.CSR
	m.Ref.Load = func(a uint64) byte {
		if b, ok := m.image[a]; ok {
			return b
		}
		return in.MemByte(a)
	}
	return m, nil
}

type byteBlock struct {
	begin model.Addr
	bytes []byte
}

func (b byteBlock) Begin() model.Addr { return b.begin }
func (b byteBlock) Bytes() []byte     { return b.bytes }

// SkipInstruction moves both machines to the instruction after the current one without
// executing it (what a user does with the instruction pointer after a step was refused).
func (m *Machine) SkipInstruction() {
	next := m.Ref.PC + 4
	m.State.Regs.Store(expr.IPKey, expr.ConstFromUint(next), 8)
	m.Ref.PC = next
}

// Diff is a mismatch between emulator and reference.
type Diff struct {
	Class string // short class for signatures
	What  string
	// for read-value mismatches: what was read
	ReadReg  expr.Key
	ReadAddr uint64
	ReadW    int
}

// instruction finds the instruction at the current address a.
func (m *Machine) instruction(a uint64) (deps.Instruction, bool) {
	b, ok := m.Code.Address(model.Addr(a))
	if !ok {
		return deps.Instruction{}, false
	}
	return b.Address(model.Addr(a))
}

// accesses computes the syntactic read set of effects in the pre-state.
func accesses(effs []expr.Effect, env *ir.Env) (regs map[expr.Key]bool, mems map[[2]uint64]bool) {
	regs, mems = map[expr.Key]bool{}, map[[2]uint64]bool{}
	var walk func(e expr.Expr)
	walk = func(e expr.Expr) {
		switch x := e.(type) {
		case expr.RegLoad:
			regs[x.Key()] = true
		case expr.MemLoad:
			a := ir.Eval(x.Addr(), env)
			mems[[2]uint64{a.Uint64(), uint64(x.Width())}] = true
			walk(x.Addr())
		case expr.Binary:
			walk(x.Arg1())
			walk(x.Arg2())
		case expr.Less:
			walk(x.Arg1())
			walk(x.Arg2())
			walk(x.ExprTrue())
			walk(x.ExprFalse())
		}
	}
	for _, ef := range effs {
		switch x := ef.(type) {
		case expr.RegStore:
			walk(x.Value())
		case expr.MemStore:
			walk(x.Addr())
			walk(x.Value())
		}
	}
	return
}

func (m *Machine) refEnv() *ir.Env {
	return &ir.Env{
		Reg: func(k expr.Key) *big.Int {
			s := string(k)
			if strings.HasPrefix(s, "csr") {
				n, _ := strconv.Atoi(s[3:])
				if v, ok := m.Ref.CSR[uint32(n)]; ok {
					return new(big.Int).SetUint64(v)
				}
				return new(big.Int).SetUint64(m.In.CSR(uint32(n)))
			}
			n, _ := strconv.Atoi(s[1:])
			if n < 0 || n > 31 {
				return new(big.Int)
			}
			return new(big.Int).SetUint64(m.Ref.X[n])
		},
		Mem: func(k expr.Key, a *big.Int) byte {
			if b, ok := m.Ref.Stores[a.Uint64()]; ok {
				return b
			}
			return m.Ref.Load(a.Uint64())
		},
	}
}

func constU64(c expr.Const) (uint64, bool) { return expr.ConstUint[uint64](c) }

// Step advances both machines by one instruction and compares. done=true when
// the reference pc is not at an instruction start (the emulator must fail).
func (m *Machine) Step() (d *Diff, done bool) {
	pc := m.Ref.PC
	ins, atIns := m.instruction(pc)
	m.Prov.step = m.Steps
	var st *emulator.Step
	var err error
	p, stack := eng.Catch(func() { st, err = m.Emu.Step() })
	if p != nil {
		return &Diff{Class: "panic " + eng.PanicSite(stack), What: fmt.Sprintf("Step at %#x panics: %v", pc, p)}, true
	}
	if !atIns {
		if err == nil {
			return &Diff{Class: "no-error-off-instruction", What: fmt.Sprintf("Step at %#x (not an instruction start) did not fail", pc)}, true
		}
		return nil, true
	}
	if err != nil {
		// which memory ranges does the instruction touch in the pre-state?
		cls := "error-on-instruction"
		env := m.refEnv()
		_, lds := accesses(ins.Effects(), env)
		for _, ef := range ins.Effects() {
			if st, ok := ef.(expr.MemStore); ok {
				lds[[2]uint64{ir.Eval(st.Addr(), env).Uint64(), uint64(st.Width())}] = true
			}
		}
		for k := range lds {
			if end := k[0] + k[1]; end == 0 {
				cls = "error-on-access-ending-at-2^64"
			} else if end < k[0] && cls == "error-on-instruction" {
				cls = "error-on-access-wrapping-2^64"
			}
		}
		return &Diff{Class: cls, What: fmt.Sprintf("Step at instruction %#x fails: %v", pc, err)}, true
	}
	m.Steps++
	word := m.words[uint64(ins.OrigAddr())]
	name := rvref.DecodeFast(word, prog.Ref64)
	// expected accesses (pre-state)
	env := m.refEnv()
	preX := m.Ref.X
	eregs, emems := accesses(ins.Effects(), env)
	memVal := func(a uint64, w int) *big.Int {
		v := new(big.Int)
		for i := w - 1; i >= 0; i-- {
			v.Lsh(v, 8)
			v.Or(v, big.NewInt(int64(env.Mem(riscv.MemoryKey, new(big.Int).SetUint64(a+uint64(i))))))
		}
		return v
	}
	// report: register loads
	for k := range eregs {
		c, ok := st.RegLoads[k]
		if !ok {
			return &Diff{Class: "report regload-missing", What: fmt.Sprintf("%s at %#x reads %s but the step report lacks it", name, pc, k)}, false
		}
		if ir.ConstVal(c).Cmp(ir.Adjust(env.Reg(k), c.Width())) != 0 {
			cls := "report regload-value"
			if w, nar := m.Narrow[k]; nar && ir.ConstVal(c).Cmp(ir.Adjust(ir.Adjust(env.Reg(k), expr.Width(w)), c.Width())) == 0 {
				cls = "narrow-first-read report"
			}
			return &Diff{Class: cls, What: fmt.Sprintf("%s at %#x: report says %s was read as %x, register holds %x", name, pc, k, ir.ConstVal(c), env.Reg(k)), ReadReg: k}, false
		}
	}
	for k := range st.RegLoads {
		if !eregs[k] {
			return &Diff{Class: "report regload-extra", What: fmt.Sprintf("%s at %#x: report lists read of %s which the effects do not read", name, pc, k)}, false
		}
	}
	gotM := map[[2]uint64]bool{}
	for _, a := range st.MemLoads {
		key := [2]uint64{uint64(a.Addr), uint64(a.Width())}
		gotM[key] = true
		if a.Key != riscv.MemoryKey || !emems[key] {
			return &Diff{Class: "report memload-extra", What: fmt.Sprintf("%s at %#x: report lists memory read [%#x,+%d) which the effects do not perform", name, pc, a.Addr, a.Width())}, false
		}
		if ir.ConstVal(a.Value).Cmp(memVal(uint64(a.Addr), int(a.Width()))) != 0 {
			return &Diff{Class: "report memload-value", What: fmt.Sprintf("%s at %#x: report says [%#x,+%d) read as %x, memory holds %x", name, pc, a.Addr, a.Width(), ir.ConstVal(a.Value), memVal(uint64(a.Addr), int(a.Width()))), ReadAddr: uint64(a.Addr), ReadW: int(a.Width())}, false
		}
	}
	for k := range emems {
		if !gotM[k] {
			return &Diff{Class: "report memload-missing", What: fmt.Sprintf("%s at %#x reads memory [%#x,+%d) but the step report lacks it", name, pc, k[0], k[1])}, false
		}
	}
	// effects' write sets, with store addresses evaluated in the PRE-state
	wantRegs := map[expr.Key]bool{}
	wantMem := map[[2]uint64]bool{}
	for _, ef := range ins.Effects() {
		switch x := ef.(type) {
		case expr.RegStore:
			wantRegs[x.Key()] = true
		case expr.MemStore:
			a := ir.Eval(x.Addr(), env)
			wantMem[[2]uint64{a.Uint64(), uint64(x.Width())}] = true
		}
	}
	// reference step
	m.Ref.Step(word, name)
	// self-modification: outside the property's domain
	for a := range m.Ref.Stores {
		if _, ok := m.image[a]; ok && !m.In.isData(a) {
			m.SelfMod = true
			return nil, true
		}
	}
	// report: stores
	for k := range wantRegs {
		c, ok := st.RegStores[k]
		if !ok {
			return &Diff{Class: "report regstore-missing", What: fmt.Sprintf("%s at %#x writes %s but the report lacks it", name, pc, k)}, false
		}
		var exp uint64
		switch {
		case k == expr.IPKey:
			exp = m.Ref.PC
		case strings.HasPrefix(string(k), "csr"):
			n, _ := strconv.Atoi(string(k)[3:])
			exp = m.Ref.CSR[uint32(n)]
		default:
			n, _ := strconv.Atoi(string(k)[1:])
			exp = m.Ref.X[n]
		}
		if v, ok := constU64(c); !ok || v != exp {
			cls := "report regstore-value"
			if m.narrowTaint(eregs, preX) {
				cls = "narrow-first-read report"
			}
			return &Diff{Class: cls, What: fmt.Sprintf("%s at %#x: report says %s := %x, reference %x", name, pc, k, ir.ConstVal(c), exp)}, false
		}
	}
	for k := range st.RegStores {
		if !wantRegs[k] {
			return &Diff{Class: "report regstore-extra", What: fmt.Sprintf("%s at %#x: report lists write of %s", name, pc, k)}, false
		}
	}
	gotS := map[[2]uint64]bool{}
	for _, a := range st.MemStores {
		key := [2]uint64{uint64(a.Addr), uint64(a.Width())}
		gotS[key] = true
		if !wantMem[key] {
			return &Diff{Class: "report memstore-extra", What: fmt.Sprintf("%s at %#x: report lists memory write [%#x,+%d)", name, pc, a.Addr, a.Width())}, false
		}
		exp := new(big.Int)
		for i := int(a.Width()) - 1; i >= 0; i-- {
			exp.Lsh(exp, 8)
			exp.Or(exp, big.NewInt(int64(m.Ref.Stores[uint64(a.Addr)+uint64(i)])))
		}
		if ir.ConstVal(a.Value).Cmp(exp) != 0 {
			cls := "report memstore-value"
			if m.narrowTaint(eregs, preX) {
				cls = "narrow-first-read report"
			}
			return &Diff{Class: cls, What: fmt.Sprintf("%s at %#x: report says [%#x,+%d) := %x, reference %x", name, pc, a.Addr, a.Width(), ir.ConstVal(a.Value), exp)}, false
		}
	}
	for k := range wantMem {
		if !gotS[k] {
			return &Diff{Class: "report memstore-missing", What: fmt.Sprintf("%s at %#x writes [%#x,+%d) but the report lacks it", name, pc, k[0], k[1])}, false
		}
	}
	// bookkeeping of knowledge
	for _, r := range m.Prov.Reqs {
		if r.Step == m.Steps-1 && !r.Mem && r.W < 8 {
			if _, w := wantRegs[r.Reg]; !w {
				m.Narrow[r.Reg] = r.W
			}
		}
	}
	m.LastRegWrites = m.LastRegWrites[:0]
	for k := range wantRegs {
		delete(m.Narrow, k)
		m.LastRegWrites = append(m.LastRegWrites, k)
	}
	// state comparison
	if d := m.compareState(name, pc); d != nil {
		return d, false
	}
	return nil, false
}

// narrowTaint reports whether one of the registers read is affected by the
// known narrow-first-read finding.
func (m *Machine) narrowTaint(regs map[expr.Key]bool, preX [32]uint64) bool {
	for k := range regs {
		if w, ok := m.Narrow[k]; ok {
			n, _ := strconv.Atoi(string(k)[1:])
			if n >= 0 && n < 32 && w < 8 && preX[n]>>(8*uint(w)) != 0 {
				return true
			}
		}
	}
	return false
}

func (m *Machine) compareState(name string, pc uint64) (d *Diff) {
	// reading the emulator's state back goes through the real register map and memories
	p, stack := eng.Catch(func() { d = m.compareState1(name, pc) })
	if p != nil {
		return &Diff{Class: "panic " + eng.PanicSite(stack), What: fmt.Sprintf("reading the state back after %s at %#x panics: %v", name, pc, p)}
	}
	return d
}

func (m *Machine) compareState1(name string, pc uint64) *Diff {
	var ip uint64
	p, stack := eng.Catch(func() { ip = uint64(m.Emu.MustIP()) })
	if p != nil {
		return &Diff{Class: "panic " + eng.PanicSite(stack), What: fmt.Sprintf("MustIP panics after %s at %#x: %v", name, pc, p)}
	}
	if ip != m.Ref.PC {
		return &Diff{Class: "pc", What: fmt.Sprintf("after %s at %#x the emulator is at %#x, reference at %#x", name, pc, ip, m.Ref.PC)}
	}
	var keys []string
	for k := range m.State.Regs.Values() {
		keys = append(keys, string(k))
	}
	sort.Strings(keys)
	for _, s := range keys {
		k := expr.Key(s)
		if k == expr.IPKey {
			continue
		}
		e, _ := m.State.Regs.Load(k, 8)
		c, ok := e.(expr.Const)
		if !ok {
			return &Diff{Class: "register-not-constant", What: fmt.Sprintf("register %s holds non-constant %s", k, ir.Show(e))}
		}
		got, _ := constU64(c)
		var exp uint64
		if strings.HasPrefix(s, "csr") {
			n, _ := strconv.Atoi(s[3:])
			v, ok := m.Ref.CSR[uint32(n)]
			if !ok {
				v = m.In.CSR(uint32(n))
			}
			exp = v
		} else {
			n, _ := strconv.Atoi(s[1:])
			if n < 1 || n > 31 {
				return &Diff{Class: "bad-register-key", What: "emulator knows register " + s}
			}
			exp = m.Ref.X[n]
		}
		if got != exp {
			cls := "register"
			if w, nar := m.Narrow[k]; nar && w < 8 && got == exp&(1<<(8*uint(w))-1) {
				cls = "narrow-first-read"
			} else if len(m.Narrow) > 0 || m.tainted {
				cls = "narrow-first-read (derived)"
			}
			if strings.HasPrefix(cls, "narrow") {
				m.tainted = true
			}
			return &Diff{Class: cls, What: fmt.Sprintf("after %s at %#x: %s = %#x, reference %#x", name, pc, k, got, exp)}
		}
	}
	// memory: every written byte
	mem := m.State.Mems[riscv.MemoryKey]
	for a, exp := range m.Ref.Stores {
		e, ok := mem.Load(model.Addr(a), 1)
		if !ok {
			return &Diff{Class: "memory-missing", What: fmt.Sprintf("after %s at %#x: byte %#x written by the program is absent", name, pc, a)}
		}
		c, isC := ir.FoldConst(e)
		if !isC {
			return &Diff{Class: "memory-not-constant", What: fmt.Sprintf("byte %#x holds %s", a, ir.Show(e))}
		}
		if byte(c) != exp {
			cls := "memory"
			if m.tainted {
				cls = "narrow-first-read (derived)"
			}
			return &Diff{Class: cls, What: fmt.Sprintf("after %s at %#x: memory[%#x] = %#02x, reference %#02x", name, pc, a, byte(c), exp)}
		}
	}
	// every byte the sparse layer holds must equal the reference's view
	ov := mem.(*memory.Overlay)
	for _, iv := range ov.Overlay().Blocks().Intervals() {
		for a := iv.Begin(); a < iv.End(); a++ {
			e, _ := mem.Load(a, 1)
			c, isC := ir.FoldConst(e)
			exp, ok := m.Ref.Stores[uint64(a)]
			if !ok {
				exp = m.Ref.Load(uint64(a))
			}
			if !isC || byte(c) != exp {
				cls := "memory"
				if m.tainted {
					cls = "narrow-first-read (derived)"
				}
				return &Diff{Class: cls, What: fmt.Sprintf("after %s at %#x: memory[%#x] = %s, reference %#02x", name, pc, a, ir.Show(e), exp)}
			}
		}
	}
	return nil
}

// Outcome is the observable result of running the emulator alone.
type Outcome struct {
	Regs  map[string]uint64 // every register (known or not: unknown ones take their initial value)
	Mem   map[uint64]byte   // bytes of the writable layer
	PC    uint64
	Steps int
	Err   string // panic / step error / horizon
}

// RunBlock runs the real emulator alone from ip until pc leaves [lo,hi) or
// the horizon is reached. All registers x1..x31 are preloaded from in.
func RunBlock(code *deps.Code, segs []prog.Seg, ip, lo, hi uint64, in *Init, horizon int) *Outcome {
	pre := *in
	pre.PreloadRegs = nil
	for n := 1; n < 32; n++ {
		pre.PreloadRegs = append(pre.PreloadRegs, n)
	}
	m, err := New(code, segs, ip, &pre)
	if err != nil {
		return &Outcome{Err: "setup: " + err.Error()}
	}
	out := &Outcome{Regs: map[string]uint64{}, Mem: map[uint64]byte{}}
	for {
		var pc uint64
		p, stack := eng.Catch(func() { pc = uint64(m.Emu.MustIP()) })
		if p != nil {
			out.Err = fmt.Sprintf("panic %s: %v", eng.PanicSite(stack), p)
			break
		}
		out.PC = pc
		if pc < lo || pc >= hi {
			break
		}
		if out.Steps >= horizon {
			out.Err = "horizon"
			break
		}
		var serr error
		p, stack = eng.Catch(func() { _, serr = m.Emu.Step() })
		if p != nil {
			out.Err = fmt.Sprintf("panic %s: %v", eng.PanicSite(stack), p)
			break
		}
		if serr != nil {
			out.Err = "step error: " + serr.Error()
			break
		}
		out.Steps++
	}
	for k := range m.State.Regs.Values() {
		if k == expr.IPKey {
			continue
		}
		e, _ := m.State.Regs.Load(k, 8)
		if c, ok := e.(expr.Const); ok {
			v, _ := constU64(c)
			out.Regs[string(k)] = v
		} else {
			out.Regs[string(k)] = 0xbadbadbad
		}
	}
	var mkeys []string
	for k := range m.State.Mems {
		mkeys = append(mkeys, string(k))
	}
	sort.Strings(mkeys)
	for ki, k := range mkeys {
		mem := m.State.Mems[expr.Key(k)]
		blocks := mem.Blocks()
		if ov, ok := mem.(*memory.Overlay); ok {
			blocks = ov.Overlay().Blocks()
		}
		// other memory spaces are kept apart by an offset in the outcome's address key
		off := uint64(0)
		if expr.Key(k) != riscv.MemoryKey {
			off = uint64(ki+1) << 56
		}
		for _, iv := range blocks.Intervals() {
			for a := iv.Begin(); a < iv.End(); a++ {
				e, _ := mem.Load(a, 1)
				if v, ok := ir.FoldConst(e); ok {
					out.Mem[off+uint64(a)] = byte(v)
				}
			}
		}
	}
	return out
}

// Differ compares two outcomes of runs from the same initial state; registers
// or bytes unknown to one run take their initial value.
func Differ(a, b *Outcome, in *Init, image map[uint64]byte) string {
	if a.Err != b.Err {
		return fmt.Sprintf("termination differs: %q vs %q", a.Err, b.Err)
	}
	if a.PC != b.PC {
		return fmt.Sprintf("control transfer differs: pc %#x vs %#x", a.PC, b.PC)
	}
	keys := map[string]bool{}
	for k := range a.Regs {
		keys[k] = true
	}
	for k := range b.Regs {
		keys[k] = true
	}
	var ks []string
	for k := range keys {
		ks = append(ks, k)
	}
	sort.Strings(ks)
	for _, k := range ks {
		va, oka := a.Regs[k]
		vb, okb := b.Regs[k]
		if !oka {
			va = in.regByKey(expr.Key(k))
		}
		if !okb {
			vb = in.regByKey(expr.Key(k))
		}
		if va != vb {
			return fmt.Sprintf("register %s differs: %#x vs %#x", k, va, vb)
		}
	}
	addrs := map[uint64]bool{}
	for x := range a.Mem {
		addrs[x] = true
	}
	for x := range b.Mem {
		addrs[x] = true
	}
	var al []uint64
	for x := range addrs {
		al = append(al, x)
	}
	sort.Slice(al, func(i, j int) bool { return al[i] < al[j] })
	for _, x := range al {
		def := in.MemByte(x & (1<<56 - 1))
		if v, ok := image[x]; ok {
			def = v
		}
		va, oka := a.Mem[x]
		vb, okb := b.Mem[x]
		if !oka {
			va = def
		}
		if !okb {
			vb = def
		}
		if va != vb {
			return fmt.Sprintf("memory[%#x] differs: %#02x vs %#02x", x, va, vb)
		}
	}
	return ""
}
