// Package eng is the common machinery of the bounded-exhaustive checks: run
// bookkeeping, violation signatures, known findings, replay files, evidence.
package eng

import (
	"bytes"
	"encoding/json"
	"flag"
	"fmt"
	"os"
	"os/exec"
	"path/filepath"
	"runtime"
	"runtime/debug"
	"runtime/pprof"
	"sort"
	"strconv"
	"strings"
	"sync"
	"sync/atomic"
	"time"
)

// VerifDir is where evidence, replays and known findings live.
var VerifDir = func() string {
	if d := os.Getenv("VERIF_DIR"); d != "" {
		return d
	}
	return "/verif"
}()

// Fail describes one violated case.
type Fail struct {
	// Sig is the narrow signature of the failure (call site + failure
	// class + smallest distinguishing parameter), without the property id.
	Sig string `json:"signature"`
	// What is a one-line human description.
	What string `json:"what"`
	// Case is the JSON-able minimal case; the check's Replay function
	// accepts it.
	Case     any `json:"case"`
	Expected any `json:"expected,omitempty"`
	Observed any `json:"observed,omitempty"`
}

// Check is one property check.
type Check struct {
	// Run explores the whole space of the tier.
	Run func(r *Run)
	// Replay re-executes a single case (as written in a replay file) and
	// returns the failure it produces or nil.
	Replay func(r *Run, raw json.RawMessage) *Fail
	// Level notes for evidence.
	Rule        string
	Assumptions []string
	// Hist is true for explicit-state history searches (states/transitions
	// are reported in evidence).
	Hist bool
	// Procs > 0: the exploration is sharded over that many worker
	// subprocesses (for code under test with process-global state such as
	// stdin/stdout); Run must use r.Mine(i) to select its share.
	Procs int
}

type finding struct {
	Property  string `json:"property"`
	Signature string `json:"signature"`
	Status    string `json:"status"` // known | fixed
	Commit    string `json:"commit,omitempty"`
	What      string `json:"what"`
}

// Run is the state of one execution of a check.
type Run struct {
	ID    string
	Tier  string
	Seed  int64
	start time.Time
	limit time.Duration

	evals      atomic.Int64
	nontrivial atomic.Int64
	states     atomic.Int64
	trans      atomic.Int64
	traces     atomic.Int64
	capped     atomic.Bool
	running    atomic.Bool // inside Check.Run (not while replaying)
	// ItemLimit bounds one work item of Par (0: 150 s in the quick tier, none in thorough; <0: none)
	ItemLimit time.Duration

	mu       sync.Mutex
	fails    map[string]*Fail
	failCnt  map[string]int
	outcomes map[string]struct{}
	distinct map[string]struct{}
	samples  []any
	notes    []string
	extra    map[string]any
	check    Check

	shardIdx, shardN int
}

// Mine reports whether work item i belongs to this worker process.
func (r *Run) Mine(i int) bool { return r.shardN <= 1 || i%r.shardN == r.shardIdx }

// partial is what a worker process hands to its parent.
type partial struct {
	Evals, Nontrivial, States, Trans, Traces int64
	Capped                                   bool
	Fails                                    map[string]*Fail
	FailCnt                                  map[string]int
	Outcomes                                 []string
	Samples                                  []any
	Notes                                    []string
	Extra                                    map[string]any
}

func (r *Run) writePartial(path string) {
	p := partial{Evals: r.evals.Load(), Nontrivial: r.nontrivial.Load(), States: r.states.Load(), Trans: r.trans.Load(),
		Traces: r.traces.Load(), Capped: r.capped.Load(), Fails: r.fails, FailCnt: r.failCnt, Samples: r.samples, Notes: r.notes, Extra: r.extra}
	for k := range r.outcomes {
		p.Outcomes = append(p.Outcomes, k)
	}
	b, err := json.Marshal(p)
	if err != nil {
		fmt.Fprintf(os.Stderr, "worker: cannot encode results: %v\n", err)
		os.Exit(3)
	}
	if err := os.WriteFile(path, b, 0o644); err != nil {
		fmt.Fprintf(os.Stderr, "worker: %v\n", err)
		os.Exit(3)
	}
}

func (r *Run) merge(p *partial, first bool) {
	r.evals.Add(p.Evals)
	r.nontrivial.Add(p.Nontrivial)
	r.states.Add(p.States)
	r.trans.Add(p.Trans)
	r.traces.Add(p.Traces)
	if p.Capped {
		r.capped.Store(true)
	}
	for s, f := range p.Fails {
		if _, ok := r.fails[s]; !ok {
			r.fails[s] = f
		}
		r.failCnt[s] += p.FailCnt[s]
	}
	for _, o := range p.Outcomes {
		r.outcomes[o] = struct{}{}
	}
	for _, x := range p.Samples {
		if len(r.samples) < 6 {
			r.samples = append(r.samples, x)
		}
	}
	if first {
		r.notes = append(r.notes, p.Notes...)
		for k, v := range p.Extra {
			r.extra[k] = v
		}
	}
}

// runWorkers spawns the worker processes and merges their results.
func (r *Run) runWorkers(n int) {
	dir, err := os.MkdirTemp("", "vshard")
	if err != nil {
		fmt.Fprintln(os.Stderr, err)
		os.Exit(3)
	}
	defer os.RemoveAll(dir)
	type res struct {
		idx int
		err error
		out []byte
	}
	ch := make(chan res, n)
	for i := 0; i < n; i++ {
		go func(i int) {
			cmd := exec.Command(os.Args[0], "-id", r.ID, "-tier", r.Tier, "-shard", fmt.Sprintf("%d/%d", i, n), "-out", filepath.Join(dir, fmt.Sprintf("p%d.json", i)))
			cmd.Env = os.Environ()
			out, err := cmd.CombinedOutput()
			ch <- res{i, err, out}
		}(i)
	}
	failed := false
	for i := 0; i < n; i++ {
		x := <-ch
		if x.err != nil {
			fmt.Fprintf(os.Stderr, "worker %d failed: %v\n%s\n", x.idx, x.err, x.out)
			failed = true
		}
	}
	if failed {
		os.Exit(3)
	}
	for i := 0; i < n; i++ {
		b, err := os.ReadFile(filepath.Join(dir, fmt.Sprintf("p%d.json", i)))
		if err != nil {
			fmt.Fprintln(os.Stderr, err)
			os.Exit(3)
		}
		var p partial
		dec := json.NewDecoder(bytes.NewReader(b))
		dec.UseNumber()
		if err := dec.Decode(&p); err != nil {
			fmt.Fprintln(os.Stderr, err)
			os.Exit(3)
		}
		r.merge(&p, i == 0)
	}
	r.Note("sharded over %d worker processes", n)
}

func (r *Run) Quick() bool { return r.Tier != "thorough" }

// Eval counts n executed cases.
func (r *Run) Eval(n int) { r.evals.Add(int64(n)) }

// Nontrivial counts n distinct non-trivial cases (by the check's rule).
func (r *Run) Nontrivial(n int) { r.nontrivial.Add(int64(n)) }

// State / Trans / Trace count explicit-state search statistics.
func (r *Run) State(n int) { r.states.Add(int64(n)) }
func (r *Run) Trans(n int) { r.trans.Add(int64(n)) }
func (r *Run) Trace(n int) { r.traces.Add(int64(n)) }

// Outcome records an observed outcome class; the number of distinct classes is
// reported to expose vacuous exploration.
func (r *Run) Outcome(k string) {
	r.mu.Lock()
	if len(r.outcomes) < 100000 {
		r.outcomes[k] = struct{}{}
	}
	r.mu.Unlock()
}

// Distinct records key k and reports whether it was new (bounded set).
func (r *Run) Distinct(k string) bool {
	r.mu.Lock()
	defer r.mu.Unlock()
	if _, ok := r.distinct[k]; ok {
		return false
	}
	r.distinct[k] = struct{}{}
	return true
}

// Sample keeps up to 6 written-out cases for the evidence file.
func (r *Run) Sample(x any) {
	r.mu.Lock()
	if len(r.samples) < 6 {
		r.samples = append(r.samples, x)
	}
	r.mu.Unlock()
}

func (r *Run) NSamples() int {
	r.mu.Lock()
	defer r.mu.Unlock()
	return len(r.samples)
}

// Note adds a free-text note to the evidence (bounds, alphabets).
func (r *Run) Note(format string, a ...any) {
	r.mu.Lock()
	r.notes = append(r.notes, fmt.Sprintf(format, a...))
	r.mu.Unlock()
}

// Set stores an extra coverage key.
func (r *Run) Set(k string, v any) {
	r.mu.Lock()
	r.extra[k] = v
	r.mu.Unlock()
}

// Expired reports whether the internal deadline passed; once it has, the run
// is marked non-exhaustive.
func (r *Run) Expired() bool {
	if r.limit > 0 && time.Since(r.start) > r.limit {
		r.capped.Store(true)
		return true
	}
	return false
}

// Cap marks the run as not exhaustive for the given reason.
func (r *Run) Cap(reason string) {
	r.capped.Store(true)
	r.Note("capped: %s", reason)
}

// Report records a failure (first one per signature is kept).
func (r *Run) Report(f *Fail) {
	if f == nil {
		return
	}
	r.mu.Lock()
	r.failCnt[f.Sig]++
	if _, ok := r.fails[f.Sig]; !ok {
		r.fails[f.Sig] = f
	}
	r.mu.Unlock()
	if Hung.Load() && r.running.Load() {
		panic(stopRun{})
	}
}

var anyRunning atomic.Bool

// StopIfHung ends the exploration of this process (like the Report that
// follows a hang does) when an earlier call was abandoned by Within. Seams call
// it before executing anything further. No effect while replaying.
func StopIfHung() {
	if Hung.Load() && anyRunning.Load() {
		panic(stopRun{})
	}
}

// HangMark starts the Stack of a result that stands for a call which did not
// return within its limit.
const HangMark = "HANG: "

// Hung is set by Within when the code under test did not return in time. The
// goroutine running it cannot be stopped, so nothing more is explored in this
// process: the next Report ends the run (marked as not exhaustive).
var Hung atomic.Bool

type stopRun struct{}

// Within runs f on its own goroutine and waits at most d for it. It returns
// false, and sets Hung, when f did not return; f keeps running abandoned.
func Within(d time.Duration, f func()) bool {
	done := make(chan struct{})
	go func() {
		defer close(done)
		f()
	}()
	t := time.NewTimer(d)
	defer t.Stop()
	select {
	case <-done:
		return true
	case <-t.C:
		Hung.Store(true)
		return false
	}
}

// NFails returns the number of distinct failure signatures so far.
func (r *Run) NFails() int {
	r.mu.Lock()
	defer r.mu.Unlock()
	return len(r.fails)
}

// Catch runs f and returns the recovered panic value (nil if none) and stack.
func Catch(f func()) (p any, stack string) {
	defer func() {
		if x := recover(); x != nil {
			p = x
			stack = string(debug.Stack())
		}
	}()
	f()
	return nil, ""
}

// PanicSite extracts the first repository frame (file:function) of a stack
// for use in signatures.
func PanicSite(stack string) string {
	if strings.HasPrefix(stack, HangMark) {
		return "HANG"
	}
	lines := strings.Split(stack, "\n")
	for i := 0; i+1 < len(lines); i++ {
		l := lines[i]
		if strings.HasPrefix(l, "mltwist/") && !strings.Contains(l, "verifh") &&
			!strings.Contains(l, "Verif") {
			if j := strings.LastIndex(l, "("); j > 0 {
				l = l[:j]
			}
			return strings.TrimPrefix(l, "mltwist/")
		}
	}
	return "unknown"
}

// guard runs f; a panic escaping it is recorded: when it originates in the
// repository's code it is a crash of the code under test which no oracle
// wrapped (reported as a violation without a replayable case); otherwise it is
// a harness error.
func (r *Run) guard(f func()) {
	p, stack := Catch(f)
	if p == nil {
		return
	}
	if _, ok := p.(stopRun); ok {
		r.Cap("exploration stopped: a call into the code under test did not return (the abandoned goroutine still runs in this process)")
		return
	}
	site := PanicSite(stack)
	if site == "unknown" {
		fmt.Fprintf(os.Stderr, "HARNESS PANIC: %v\n%s\n", p, stack)
		os.Exit(3)
	}
	r.Report(&Fail{Sig: "uncaught panic " + site, What: fmt.Sprintf("code under test panics outside any oracle: %v", p), Case: nil})
}

// Par runs f(i) for i in [0,n) on all cores. f must be safe for concurrent
// use. It stops handing out work once the run expired.
func (r *Run) Par(n int, f func(i int)) {
	workers := runtime.GOMAXPROCS(0)
	if workers > n {
		workers = n
	}
	if workers < 1 {
		workers = 1
	}
	// Hang detection (quick tier, unless the check sets ItemLimit itself): a work item
	// that runs longer than ItemLimit — hundreds of times its normal duration — is run
	// again on a fresh goroutine under the same limit; if that does not return either,
	// the code under test never returns on some case of the item: reported (without a
	// replayable case, like an uncaught panic) and the exploration ends.
	limit := r.ItemLimit
	if limit == 0 && r.Quick() {
		limit = 150 * time.Second
	}
	type slot struct{ item, start atomic.Int64 }
	slots := make([]slot, workers)
	var next atomic.Int64
	var wg sync.WaitGroup
	for w := 0; w < workers; w++ {
		wg.Add(1)
		go func(sl *slot) {
			defer wg.Done()
			for {
				i := int(next.Add(1) - 1)
				if i >= n {
					return
				}
				if r.Expired() || Hung.Load() {
					return
				}
				sl.start.Store(time.Now().UnixNano())
				sl.item.Store(int64(i) + 1)
				r.guard(func() { f(i) })
				sl.item.Store(0)
			}
		}(&slots[w])
	}
	done := make(chan struct{})
	go func() { wg.Wait(); close(done) }()
	if limit <= 0 {
		<-done
		return
	}
	tick := time.NewTicker(2 * time.Second)
	defer tick.Stop()
	for {
		select {
		case <-done:
			return
		case <-tick.C:
		}
		for w := range slots {
			it := slots[w].item.Load()
			if it == 0 || time.Since(time.Unix(0, slots[w].start.Load())) < limit {
				continue
			}
			i := int(it - 1)
			if slots[w].item.Load() != it { // finished meanwhile
				continue
			}
			if Within(limit, func() { r.guard(func() { f(i) }) }) {
				Hung.Store(false) // slow, not stuck
				slots[w].start.Store(time.Now().UnixNano())
				continue
			}
			r.mu.Lock()
			sig := "no return (work item)"
			r.failCnt[sig]++
			if _, ok := r.fails[sig]; !ok {
				r.fails[sig] = &Fail{Sig: sig, What: fmt.Sprintf("work item %d of %d of this exploration did not return within %v, twice (normal duration: well under a second): some call into the code under test never returns", i, n, limit)}
			}
			r.mu.Unlock()
			r.Cap("exploration stopped: a work item never returned")
			return // Hung is set: later Par calls hand out no work
		}
	}
}

func loadFindings() []finding {
	b, err := os.ReadFile(filepath.Join(VerifDir, "known_findings.json"))
	if err != nil {
		return nil
	}
	var v struct {
		Findings []finding `json:"findings"`
	}
	if err := json.Unmarshal(b, &v); err != nil {
		fmt.Fprintf(os.Stderr, "known_findings.json: %v\n", err)
		os.Exit(3)
	}
	return v.Findings
}

func sanitize(s string) string {
	var b strings.Builder
	for _, c := range s {
		switch {
		case c >= 'a' && c <= 'z', c >= 'A' && c <= 'Z', c >= '0' && c <= '9', c == '-', c == '.':
			b.WriteRune(c)
		default:
			b.WriteByte('_')
		}
	}
	out := b.String()
	if len(out) > 120 {
		out = out[:120]
	}
	return out
}

// finish writes replay files and evidence and returns the exit code.
func (r *Run) finish() int {
	known := map[string]finding{}
	for _, f := range loadFindings() {
		if f.Property == r.ID && f.Status == "known" {
			known[f.Signature] = f
		}
	}

	sigs := make([]string, 0, len(r.fails))
	for s := range r.fails {
		sigs = append(sigs, s)
	}
	sort.Strings(sigs)

	var violations, knownHit, unreproduced int
	for _, s := range sigs {
		f := r.fails[s]
		if k, ok := known[s]; ok {
			fmt.Printf("KNOWN-FINDING: property=%s %s [%s] (%d cases)\n", r.ID, k.What, s, r.failCnt[s])
			knownHit++
			continue
		}
		// Re-execute before believing.
		if r.check.Replay != nil && f.Case != nil {
			raw, err := json.Marshal(f.Case)
			if err != nil {
				fmt.Fprintf(os.Stderr, "cannot marshal case of %s: %v\n", s, err)
				return 3
			}
			ok := true
			for i := 0; i < 2; i++ {
				Hung.Store(false) // each replay builds its own instance; an abandoned call of an earlier one is left alone
				g := r.check.Replay(r, raw)
				if g == nil || g.Sig != f.Sig {
					ok = false
				}
			}
			if !ok {
				fmt.Printf("UNREPRODUCED: property=%s signature=%q what=%q (not reported as a violation)\n", r.ID, s, f.What)
				unreproduced++
				continue
			}
		}
		dir := filepath.Join(VerifDir, "replays", r.ID)
		os.MkdirAll(dir, 0o755)
		path := filepath.Join(dir, sanitize(s)+".json")
		out := map[string]any{
			"property": r.ID, "signature": f.Sig, "what": f.What, "case": f.Case,
			"expected": f.Expected, "observed": f.Observed, "cases_with_signature": r.failCnt[s],
		}
		b, _ := json.MarshalIndent(out, "", " ")
		os.WriteFile(path, b, 0o644)
		fmt.Printf("VIOLATION property=%s replay=%s\n", r.ID, path)
		fmt.Printf("  signature=%q what=%s\n", s, f.What)
		violations++
	}

	exhaustive := !r.capped.Load()
	cov := map[string]any{
		"evaluations":         r.evals.Load(),
		"distinct_nontrivial": r.nontrivial.Load(),
		"rule":                r.check.Rule,
		"samples":             r.samples,
		"exhaustive":          exhaustive,
		"distinct_outcomes":   len(r.outcomes),
		"bounds":              r.notes,
		"known_findings_hit":  knownHit,
		"unreproduced":        unreproduced,
	}
	if r.check.Hist || r.states.Load() > 0 {
		cov["states"] = r.states.Load()
		cov["transitions"] = r.trans.Load()
		cov["traces_validated_against_impl"] = r.traces.Load()
	}
	for k, v := range r.extra {
		cov[k] = v
	}
	if len(r.samples) == 0 {
		cov["samples"] = []any{"(no case executed)"}
	}
	assumptions := r.check.Assumptions
	if assumptions == nil {
		assumptions = []string{}
	}
	ev := map[string]any{
		"property_id": r.ID,
		"tier":        r.Tier,
		"seed":        r.Seed,
		"level":       "model_checking",
		"coverage":    cov,
		"assumptions": assumptions,
		"wall_s":      time.Since(r.start).Seconds(),
		"violations":  violations,
	}
	os.MkdirAll(filepath.Join(VerifDir, "evidence"), 0o755)
	b, _ := json.MarshalIndent(ev, "", " ")
	if err := os.WriteFile(filepath.Join(VerifDir, "evidence", r.ID+".json"), b, 0o644); err != nil {
		fmt.Fprintf(os.Stderr, "cannot write evidence: %v\n", err)
		return 3
	}
	fmt.Printf("%s %s: evaluations=%d nontrivial=%d states=%d transitions=%d outcomes=%d exhaustive=%v violations=%d known=%d wall=%.1fs\n",
		r.ID, r.Tier, r.evals.Load(), r.nontrivial.Load(), r.states.Load(), r.trans.Load(),
		len(r.outcomes), exhaustive, violations, knownHit, time.Since(r.start).Seconds())
	if violations > 0 {
		return 1
	}
	return 0
}

func newRun(id, tier string, c Check) *Run {
	seed, _ := strconv.ParseInt(os.Getenv("VERIF_SEED"), 10, 64)
	r := &Run{
		ID: id, Tier: tier, Seed: seed, start: time.Now(),
		fails: map[string]*Fail{}, failCnt: map[string]int{},
		outcomes: map[string]struct{}{}, distinct: map[string]struct{}{},
		extra: map[string]any{}, check: c,
	}
	if s := os.Getenv("VERIF_LIMIT_S"); s != "" {
		if v, err := strconv.Atoi(s); err == nil {
			r.limit = time.Duration(v) * time.Second
		}
	}
	return r
}

// Main dispatches: <bin> -id C14 -tier quick | -id C14 -replay file.
func Main(checks map[string]Check) {
	id := flag.String("id", "", "property id")
	tier := flag.String("tier", "quick", "quick|thorough")
	replay := flag.String("replay", "", "replay file")
	shard := flag.String("shard", "", "worker mode: k/n")
	outFile := flag.String("out", "", "worker mode: result file")
	flag.Parse()
	debug.SetGCPercent(400) // the checks allocate many short-lived values on small live heaps
	if t := os.Getenv("VERIF_TIER"); t != "" && *tier == "" {
		*tier = t
	}
	c, ok := checks[*id]
	if !ok {
		fmt.Fprintf(os.Stderr, "unknown check %q\n", *id)
		os.Exit(3)
	}
	r := newRun(*id, *tier, c)
	if *replay != "" {
		b, err := os.ReadFile(*replay)
		if err != nil {
			fmt.Fprintln(os.Stderr, err)
			os.Exit(3)
		}
		var v struct {
			Case json.RawMessage `json:"case"`
		}
		if err := json.Unmarshal(b, &v); err != nil {
			fmt.Fprintln(os.Stderr, err)
			os.Exit(3)
		}
		if c.Replay == nil {
			fmt.Fprintln(os.Stderr, "check has no replay function")
			os.Exit(3)
		}
		Hung.Store(false)
		f := c.Replay(r, v.Case)
		if f == nil {
			fmt.Printf("replay: property %s holds on this case\n", *id)
			os.Exit(0)
		}
		fb, _ := json.MarshalIndent(f, "", " ")
		fmt.Printf("VIOLATION property=%s replay=%s\n%s\n", *id, *replay, fb)
		os.Exit(1)
	}
	if r.limit == 0 {
		if r.Quick() {
			r.limit = 150 * time.Second
		} else {
			r.limit = 3 * time.Hour
		}
	}
	// Last resort against code under test that never returns where no seam
	// has its own hang limit: the process ends instead of blocking its caller
	// for ever. Not a verdict on the property (exit status 3, no VIOLATION line).
	go func(limit time.Duration) {
		time.Sleep(2*limit + 5*time.Minute)
		fmt.Fprintf(os.Stderr, "HARNESS-TIMEOUT: %s %s did not finish within %v (twice its budget + 5 min); a call into the code under test probably never returns\n", r.ID, r.Tier, 2*limit+5*time.Minute)
		os.Exit(3)
	}(r.limit)
	if *shard != "" {
		fmt.Sscanf(*shard, "%d/%d", &r.shardIdx, &r.shardN)
		if pf := os.Getenv("VERIF_CPUPROFILE"); pf != "" && r.shardIdx == 0 {
			if f, err := os.Create(pf); err == nil {
				pprof.StartCPUProfile(f)
				defer pprof.StopCPUProfile()
			}
		}
		r.guard(func() {
			r.running.Store(true)
			anyRunning.Store(true)
			defer r.running.Store(false)
			defer anyRunning.Store(false)
			c.Run(r)
		})
		pprof.StopCPUProfile()
		r.writePartial(*outFile)
		os.Exit(0)
	}
	if c.Procs > 0 {
		r.runWorkers(c.Procs)
	} else {
		if pf := os.Getenv("VERIF_CPUPROFILE"); pf != "" {
			if f, err := os.Create(pf); err == nil {
				pprof.StartCPUProfile(f)
			}
		}
		r.guard(func() {
			r.running.Store(true)
			anyRunning.Store(true)
			defer r.running.Store(false)
			defer anyRunning.Store(false)
			c.Run(r)
		})
		pprof.StopCPUProfile()
	}
	os.Exit(r.finish())
}
