// Package ir holds the reference evaluator for the expression IR (written
// from the package documentation of pkg/expr, independent of expreval and
// ConstFold), pretty printer, structural digest and tree enumerators.
package ir

import (
	"fmt"
	"math/big"
	"strings"

	"mltwist/pkg/expr"
)

// Env is a valuation: full register values and a byte function per memory
// key.
type Env struct {
	// Reg returns the full (arbitrarily wide) value of a register.
	Reg func(k expr.Key) *big.Int
	// Mem returns the byte at an address of a memory space.
	Mem func(k expr.Key, addr *big.Int) byte
	// OnReg / OnMem, when non-nil, observe every access (for read sets).
	OnReg func(k expr.Key, w expr.Width)
	OnMem func(k expr.Key, addr *big.Int, w expr.Width)
}

var one = big.NewInt(1)

// Mod returns 2^(8w).
func Mod(w expr.Width) *big.Int { return new(big.Int).Lsh(one, uint(w)*8) }

// Adjust truncates v to w bytes (zero extension is the identity on
// non-negative integers).
func Adjust(v *big.Int, w expr.Width) *big.Int {
	if v.BitLen() <= int(w)*8 {
		return v
	}
	return new(big.Int).And(v, new(big.Int).Sub(Mod(w), one))
}

// ConstVal decodes a little-endian constant.
func ConstVal(c expr.Const) *big.Int {
	bs := c.Bytes()
	be := make([]byte, len(bs))
	for i, b := range bs {
		be[len(bs)-1-i] = b
	}
	return new(big.Int).SetBytes(be)
}

// Eval returns the value of e (in [0, 2^(8*e.Width()))).
func Eval(e expr.Expr, env *Env) *big.Int {
	switch x := e.(type) {
	case expr.Const:
		return ConstVal(x)
	case expr.RegLoad:
		if env.OnReg != nil {
			env.OnReg(x.Key(), x.Width())
		}
		return Adjust(env.Reg(x.Key()), x.Width())
	case expr.MemLoad:
		a := Eval(x.Addr(), env)
		if env.OnMem != nil {
			env.OnMem(x.Key(), a, x.Width())
		}
		v := new(big.Int)
		for i := int(x.Width()) - 1; i >= 0; i-- {
			ai := new(big.Int).Add(a, big.NewInt(int64(i)))
			v.Lsh(v, 8)
			v.Or(v, big.NewInt(int64(env.Mem(x.Key(), ai))))
		}
		return v
	case expr.Binary:
		w := x.Width()
		a := Adjust(Eval(x.Arg1(), env), w)
		b := Adjust(Eval(x.Arg2(), env), w)
		return BinOp(x.Op(), a, b, w)
	case expr.Less:
		w := x.Width()
		a := Adjust(Eval(x.Arg1(), env), w)
		b := Adjust(Eval(x.Arg2(), env), w)
		if a.Cmp(b) < 0 {
			return Adjust(Eval(x.ExprTrue(), env), w)
		}
		return Adjust(Eval(x.ExprFalse(), env), w)
	}
	panic(fmt.Sprintf("ir.Eval: unknown expression %T", e))
}

// BinOp applies op to adjusted operands a, b at width w.
func BinOp(op expr.BinaryOp, a, b *big.Int, w expr.Width) *big.Int {
	bits := uint(w) * 8
	switch op {
	case expr.Add:
		return Adjust(new(big.Int).Add(a, b), w)
	case expr.Mul:
		return Adjust(new(big.Int).Mul(a, b), w)
	case expr.Lsh:
		if !b.IsUint64() || b.Uint64() >= uint64(bits) {
			return new(big.Int)
		}
		return Adjust(new(big.Int).Lsh(a, uint(b.Uint64())), w)
	case expr.Rsh:
		if !b.IsUint64() || b.Uint64() >= uint64(bits) {
			return new(big.Int)
		}
		return new(big.Int).Rsh(a, uint(b.Uint64()))
	case expr.Div:
		if b.Sign() == 0 {
			return new(big.Int).Sub(Mod(w), one)
		}
		return new(big.Int).Div(a, b)
	case expr.Nand:
		all := new(big.Int).Sub(Mod(w), one)
		return new(big.Int).Xor(new(big.Int).And(a, b), all)
	}
	panic(fmt.Sprintf("ir.BinOp: unknown op %d", op))
}

// OpName names a binary operator.
func OpName(op expr.BinaryOp) string {
	switch op {
	case expr.Add:
		return "add"
	case expr.Lsh:
		return "lsh"
	case expr.Rsh:
		return "rsh"
	case expr.Mul:
		return "mul"
	case expr.Div:
		return "div"
	case expr.Nand:
		return "nand"
	}
	return fmt.Sprintf("op%d", op)
}

// Show renders an expression unambiguously (also used as structural digest).
func Show(e expr.Expr) string {
	var b strings.Builder
	show(&b, e)
	return b.String()
}

func show(b *strings.Builder, e expr.Expr) {
	switch x := e.(type) {
	case nil:
		b.WriteString("<nil>")
	case expr.Const:
		fmt.Fprintf(b, "c%d:%x", x.Width(), ConstVal(x))
	case expr.RegLoad:
		fmt.Fprintf(b, "r%d:%s", x.Width(), x.Key())
	case expr.MemLoad:
		fmt.Fprintf(b, "m%d:%s[", x.Width(), x.Key())
		show(b, x.Addr())
		b.WriteString("]")
	case expr.Binary:
		fmt.Fprintf(b, "%s%d(", OpName(x.Op()), x.Width())
		show(b, x.Arg1())
		b.WriteString(",")
		show(b, x.Arg2())
		b.WriteString(")")
	case expr.Less:
		fmt.Fprintf(b, "less%d(", x.Width())
		show(b, x.Arg1())
		b.WriteString(",")
		show(b, x.Arg2())
		b.WriteString(",")
		show(b, x.ExprTrue())
		b.WriteString(",")
		show(b, x.ExprFalse())
		b.WriteString(")")
	default:
		fmt.Fprintf(b, "<?%T>", e)
	}
}

// ShowEffect renders an effect.
func ShowEffect(e expr.Effect) string {
	switch x := e.(type) {
	case expr.RegStore:
		return fmt.Sprintf("regstore%d %s := %s", x.Width(), x.Key(), Show(x.Value()))
	case expr.MemStore:
		return fmt.Sprintf("memstore%d %s[%s] := %s", x.Width(), x.Key(), Show(x.Addr()), Show(x.Value()))
	}
	return fmt.Sprintf("<?%T>", e)
}

// Size counts nodes.
func Size(e expr.Expr) int {
	switch x := e.(type) {
	case expr.MemLoad:
		return 1 + Size(x.Addr())
	case expr.Binary:
		return 1 + Size(x.Arg1()) + Size(x.Arg2())
	case expr.Less:
		return 1 + Size(x.Arg1()) + Size(x.Arg2()) + Size(x.ExprTrue()) + Size(x.ExprFalse())
	}
	return 1
}

// MixByte is the default memory content μ0: every address of every memory
// space has a pseudo-random but fixed byte so that a wrong address or a wrong
// byte order always changes the data read.
func MixByte(k expr.Key, addr *big.Int, seed uint64) byte {
	h := uint64(14695981039346656037) ^ seed*0x9e3779b97f4a7c15
	for i := 0; i < len(k); i++ {
		h = (h ^ uint64(k[i])) * 1099511628211
	}
	for _, w := range addr.Bits() {
		h = (h ^ uint64(w)) * 1099511628211
		h ^= h >> 29
	}
	h ^= h >> 32
	h *= 0xd6e8feb86659fd93
	h ^= h >> 32
	return byte(h)
}

// FoldConst evaluates a closed expression (no register or memory loads) to a
// uint64 (low 64 bits); ok=false if it contains loads.
func FoldConst(e expr.Expr) (uint64, bool) {
	closed := true
	env := &Env{
		Reg: func(expr.Key) *big.Int { closed = false; return new(big.Int) },
		Mem: func(expr.Key, *big.Int) byte { closed = false; return 0 },
	}
	v := Eval(e, env)
	if !closed {
		return 0, false
	}
	return new(big.Int).And(v, new(big.Int).SetUint64(^uint64(0))).Uint64(), true
}
