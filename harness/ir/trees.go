package ir

import "mltwist/pkg/expr"

// Ops lists all binary operators.
var Ops = []expr.BinaryOp{expr.Add, expr.Lsh, expr.Rsh, expr.Mul, expr.Div, expr.Nand}

// Grow returns every expression with exactly one more internal node whose
// children are drawn from the given pools: for each position exactly one child
// comes from `inner` (or all from leaves when inner is nil) and the others from
// `leaves`. Widths of the new node range over ws; memory key is "mem".
//
// With inner == nil this yields all trees with one internal node over leaves.
func Grow(leaves, inner []expr.Expr, ws []expr.Width, yield func(expr.Expr)) {
	pick := func(pos, at int) []expr.Expr {
		if inner != nil && pos == at {
			return inner
		}
		return leaves
	}
	positions := func(n int) []int {
		if inner == nil {
			return []int{-1}
		}
		p := make([]int, n)
		for i := range p {
			p[i] = i
		}
		return p
	}
	for _, w := range ws {
		for _, at := range positions(2) {
			for _, op := range Ops {
				for _, a := range pick(0, at) {
					for _, b := range pick(1, at) {
						yield(expr.NewBinary(op, a, b, w))
					}
				}
			}
		}
		for _, at := range positions(4) {
			for _, a := range pick(0, at) {
				for _, b := range pick(1, at) {
					for _, t := range pick(2, at) {
						for _, f := range pick(3, at) {
							yield(expr.NewLess(a, b, t, f, w))
						}
					}
				}
			}
		}
		for _, at := range positions(1) {
			for _, a := range pick(0, at) {
				yield(expr.NewMemLoad("mem", a, w))
			}
		}
	}
}

// Collect gathers Grow's output.
func Collect(leaves, inner []expr.Expr, ws []expr.Width) []expr.Expr {
	var out []expr.Expr
	Grow(leaves, inner, ws, func(e expr.Expr) { out = append(out, e) })
	return out
}
