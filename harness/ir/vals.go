package ir

import (
	"math/big"
	"sort"

	"mltwist/pkg/expr"
)

// Const builds a w-byte constant from v mod 2^(8w).
func Const(v *big.Int, w expr.Width) expr.Const {
	v = Adjust(new(big.Int).Set(v), w)
	bs := make([]byte, w)
	be := v.Bytes()
	for i := range be {
		bs[i] = be[len(be)-1-i]
	}
	return expr.NewConst(bs, w)
}

// ConstU builds a constant from a uint64.
func ConstU(v uint64, w expr.Width) expr.Const { return Const(new(big.Int).SetUint64(v), w) }

// Boundary returns a boundary-value alphabet for width w (sorted, distinct):
// 0,1,2,3, all-ones and neighbours, every byte-boundary power of two and its
// neighbours, sign bit and neighbours, alternating patterns.
func Boundary(w expr.Width) []*big.Int {
	m := Mod(w)
	set := map[string]*big.Int{}
	add := func(v *big.Int) {
		v = new(big.Int).Mod(v, m)
		set[v.String()] = v
	}
	for _, s := range []int64{0, 1, 2, 3, 7, 8, 9, 15, 16, 17, 0x7f, 0x80, 0xff} {
		add(big.NewInt(s))
	}
	for k := uint(0); k <= uint(w)*8; k += 8 {
		if w > 17 && k > 72 && k+16 < uint(w)*8 && k != 128 && k != 256 {
			continue
		}
		p := new(big.Int).Lsh(one, k)
		add(p)
		add(new(big.Int).Sub(p, one))
		add(new(big.Int).Add(p, one))
	}
	top := new(big.Int).Lsh(one, uint(w)*8-1)
	add(top)
	add(new(big.Int).Sub(top, one))
	add(new(big.Int).Add(top, one))
	add(new(big.Int).Sub(m, one))
	add(new(big.Int).Sub(m, big.NewInt(2)))
	if w > 1 {
		add(new(big.Int).Sub(m, big.NewInt(256))) // a non-zero value whose lowest byte is zero
	}
	pat := new(big.Int)
	for i := 0; i < int(w); i++ {
		pat.Lsh(pat, 8)
		pat.Or(pat, big.NewInt(0x55))
	}
	add(pat)
	add(new(big.Int).Lsh(pat, 1))
	out := make([]*big.Int, 0, len(set))
	for _, v := range set {
		out = append(out, v)
	}
	sort.Slice(out, func(i, j int) bool { return out[i].Cmp(out[j]) < 0 })
	return out
}

// BytePatterns returns all values of width w whose bytes come from alpha.
func BytePatterns(w expr.Width, alpha []byte) []*big.Int {
	var out []*big.Int
	n := 1
	for i := 0; i < int(w); i++ {
		n *= len(alpha)
	}
	for i := 0; i < n; i++ {
		v := new(big.Int)
		x := i
		for j := 0; j < int(w); j++ {
			v.Lsh(v, 8)
			v.Or(v, big.NewInt(int64(alpha[x%len(alpha)])))
			x /= len(alpha)
		}
		out = append(out, v)
	}
	return out
}
