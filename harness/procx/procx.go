// Package procx runs the real mltwist binary: plain runs with /dev/null as
// stdin and runs under a pseudo-terminal.
package procx

import (
	"bytes"
	"context"
	"fmt"
	"os"
	"os/exec"
	"path/filepath"
	"strings"
	"syscall"
	"time"
	"unsafe"
)

// Build compiles ./cmd/mltwist of the repository into dir and returns the path.
func Build(dir string) (string, error) {
	repo := os.Getenv("VERIF_REPO_DIR")
	if repo == "" {
		repo = "/repo"
	}
	bin := filepath.Join(dir, "mltwist")
	args := []string{"build", "-o", bin}
	if ov := os.Getenv("VERIF_EXTRA_OVERLAY"); ov != "" {
		// detection demonstrations replace repository files through an overlay
		args = append(args, "-overlay", ov)
	}
	cmd := exec.Command("go", append(args, "./cmd/mltwist")...)
	cmd.Dir = repo
	out, err := cmd.CombinedOutput()
	if err != nil {
		return "", fmt.Errorf("go build ./cmd/mltwist: %v\n%s", err, out)
	}
	return bin, nil
}

// Result of one process run.
type Result struct {
	Exit     int    // exit status, -1 if signalled
	Signal   string // signal name if killed
	TimedOut bool
	Stdout   string
	Stderr   string
}

// Crashed reports a Go panic / fatal error / signal / timeout.
func (r *Result) Crashed() string {
	switch {
	case r.TimedOut:
		return "timeout"
	case r.Signal != "":
		return "signal " + r.Signal
	case strings.Contains(r.Stderr, "panic:") || strings.Contains(r.Stdout, "panic:"):
		return "panic"
	case strings.Contains(r.Stderr, "fatal error:"):
		return "fatal error"
	case strings.Contains(r.Stderr, "goroutine ") && strings.Contains(r.Stderr, "[running]"):
		return "goroutine dump"
	case r.Exit == 2 && strings.Contains(r.Stderr, "runtime."):
		return "runtime crash"
	}
	return ""
}

// Run executes bin with args, stdin=/dev/null, 4 GiB address-space limit.
func Run(bin string, args []string, timeout time.Duration) *Result {
	ctx, cancel := context.WithTimeout(context.Background(), timeout)
	defer cancel()
	sh := "ulimit -v 4194304; exec \"$0\" \"$@\""
	cmd := exec.CommandContext(ctx, "/bin/sh", append([]string{"-c", sh, bin}, args...)...)
	var so, se bytes.Buffer
	cmd.Stdout, cmd.Stderr = &so, &se
	cmd.Env = append(os.Environ(), "GOTRACEBACK=single")
	err := cmd.Run()
	res := &Result{Stdout: so.String(), Stderr: se.String()}
	if ctx.Err() == context.DeadlineExceeded {
		res.TimedOut = true
	}
	if err != nil {
		if ee, ok := err.(*exec.ExitError); ok {
			if ws, ok := ee.Sys().(syscall.WaitStatus); ok && ws.Signaled() {
				res.Exit = -1
				res.Signal = ws.Signal().String()
			} else {
				res.Exit = ee.ExitCode()
			}
		} else {
			res.Exit = -2
			res.Stderr += "\nexec error: " + err.Error()
		}
	}
	return res
}

func ioctl(fd uintptr, req uintptr, arg unsafe.Pointer) error {
	_, _, e := syscall.Syscall(syscall.SYS_IOCTL, fd, req, uintptr(arg))
	if e != 0 {
		return e
	}
	return nil
}

// RunPTY runs bin under a pseudo-terminal with the given height, feeding the
// input text, and returns everything the program wrote.
func RunPTY(bin string, args []string, rows, cols int, input string, timeout time.Duration) (*Result, error) {
	return RunPTYOpt(bin, args, rows, cols, input, timeout, false)
}

// RunPTYOpt is RunPTY; with noEcho the terminal does not echo the typed input, so the
// captured text is exactly what the program wrote.
func RunPTYOpt(bin string, args []string, rows, cols int, input string, timeout time.Duration, noEcho bool) (*Result, error) {
	ptmx, err := os.OpenFile("/dev/ptmx", os.O_RDWR|syscall.O_NOCTTY, 0)
	if err != nil {
		return nil, err
	}
	defer ptmx.Close()
	var unlock int32
	if err := ioctl(ptmx.Fd(), 0x40045431, unsafe.Pointer(&unlock)); err != nil { // TIOCSPTLCK
		return nil, err
	}
	var n uint32
	if err := ioctl(ptmx.Fd(), 0x80045430, unsafe.Pointer(&n)); err != nil { // TIOCGPTN
		return nil, err
	}
	slave, err := os.OpenFile(fmt.Sprintf("/dev/pts/%d", n), os.O_RDWR|syscall.O_NOCTTY, 0)
	if err != nil {
		return nil, err
	}
	ws := struct{ Row, Col, X, Y uint16 }{uint16(rows), uint16(cols), 0, 0}
	if err := ioctl(ptmx.Fd(), 0x5414, unsafe.Pointer(&ws)); err != nil { // TIOCSWINSZ
		slave.Close()
		return nil, err
	}
	if noEcho {
		var t syscall.Termios
		if err := ioctl(slave.Fd(), 0x5401, unsafe.Pointer(&t)); err != nil { // TCGETS
			slave.Close()
			return nil, err
		}
		t.Lflag &^= 0x8                                                       // ECHO
		if err := ioctl(slave.Fd(), 0x5402, unsafe.Pointer(&t)); err != nil { // TCSETS
			slave.Close()
			return nil, err
		}
	}
	ctx, cancel := context.WithTimeout(context.Background(), timeout)
	defer cancel()
	cmd := exec.CommandContext(ctx, bin, args...)
	cmd.Stdin, cmd.Stdout, cmd.Stderr = slave, slave, slave
	cmd.SysProcAttr = &syscall.SysProcAttr{Setsid: true, Setctty: true, Ctty: 0}
	cmd.Env = append(os.Environ(), "GOTRACEBACK=single", "TERM=dumb")
	if err := cmd.Start(); err != nil {
		slave.Close()
		return nil, err
	}
	slave.Close()
	var out bytes.Buffer
	done := make(chan struct{})
	go func() {
		buf := make([]byte, 4096)
		for {
			k, err := ptmx.Read(buf)
			if k > 0 {
				out.Write(buf[:k])
			}
			if err != nil {
				break
			}
		}
		close(done)
	}()
	// feed the input line by line (the tty echoes it)
	go func() {
		for _, line := range strings.SplitAfter(input, "\n") {
			if line == "" {
				continue
			}
			time.Sleep(15 * time.Millisecond)
			ptmx.WriteString(line)
		}
	}()
	err = cmd.Wait()
	res := &Result{}
	if ctx.Err() == context.DeadlineExceeded {
		res.TimedOut = true
	}
	if err != nil {
		if ee, ok := err.(*exec.ExitError); ok {
			if ws, ok := ee.Sys().(syscall.WaitStatus); ok && ws.Signaled() {
				res.Exit = -1
				res.Signal = ws.Signal().String()
			} else {
				res.Exit = ee.ExitCode()
			}
		}
	}
	select {
	case <-done:
	case <-time.After(300 * time.Millisecond):
	}
	res.Stdout = out.String()
	res.Stderr = res.Stdout
	return res, nil
}

// RunPTYExpect runs bin under a pseudo-terminal without echo and lets react answer the
// program: it is called with everything written so far whenever new output arrived and
// returns the text to type next ("" for nothing). The run ends when the process exits.
func RunPTYExpect(bin string, args []string, rows, cols int, timeout time.Duration, react func(out string) string) (*Result, error) {
	ptmx, err := os.OpenFile("/dev/ptmx", os.O_RDWR|syscall.O_NOCTTY, 0)
	if err != nil {
		return nil, err
	}
	defer ptmx.Close()
	var unlock int32
	if err := ioctl(ptmx.Fd(), 0x40045431, unsafe.Pointer(&unlock)); err != nil { // TIOCSPTLCK
		return nil, err
	}
	var n uint32
	if err := ioctl(ptmx.Fd(), 0x80045430, unsafe.Pointer(&n)); err != nil { // TIOCGPTN
		return nil, err
	}
	slave, err := os.OpenFile(fmt.Sprintf("/dev/pts/%d", n), os.O_RDWR|syscall.O_NOCTTY, 0)
	if err != nil {
		return nil, err
	}
	ws := struct{ Row, Col, X, Y uint16 }{uint16(rows), uint16(cols), 0, 0}
	if err := ioctl(ptmx.Fd(), 0x5414, unsafe.Pointer(&ws)); err != nil { // TIOCSWINSZ
		slave.Close()
		return nil, err
	}
	var t syscall.Termios
	if err := ioctl(slave.Fd(), 0x5401, unsafe.Pointer(&t)); err != nil { // TCGETS
		slave.Close()
		return nil, err
	}
	t.Lflag &^= 0x8                                                       // ECHO
	if err := ioctl(slave.Fd(), 0x5402, unsafe.Pointer(&t)); err != nil { // TCSETS
		slave.Close()
		return nil, err
	}
	ctx, cancel := context.WithTimeout(context.Background(), timeout)
	defer cancel()
	cmd := exec.CommandContext(ctx, bin, args...)
	cmd.Stdin, cmd.Stdout, cmd.Stderr = slave, slave, slave
	cmd.SysProcAttr = &syscall.SysProcAttr{Setsid: true, Setctty: true, Ctty: 0}
	cmd.Env = append(os.Environ(), "GOTRACEBACK=single", "TERM=dumb")
	if err := cmd.Start(); err != nil {
		slave.Close()
		return nil, err
	}
	slave.Close()
	var out bytes.Buffer
	done := make(chan struct{})
	go func() {
		buf := make([]byte, 4096)
		for {
			k, err := ptmx.Read(buf)
			if k > 0 {
				out.Write(buf[:k])
				if s := react(out.String()); s != "" {
					ptmx.WriteString(s)
				}
			}
			if err != nil {
				break
			}
		}
		close(done)
	}()
	err = cmd.Wait()
	res := &Result{}
	if ctx.Err() == context.DeadlineExceeded {
		res.TimedOut = true
	}
	if err != nil {
		if ee, ok := err.(*exec.ExitError); ok {
			if ws, ok := ee.Sys().(syscall.WaitStatus); ok && ws.Signaled() {
				res.Exit = -1
				res.Signal = ws.Signal().String()
			} else {
				res.Exit = ee.ExitCode()
			}
		}
	}
	select {
	case <-done:
	case <-time.After(300 * time.Millisecond):
	}
	res.Stdout = out.String()
	res.Stderr = res.Stdout
	return res, nil
}
