// Package prog builds real code models (elf block store -> parser -> deps)
// from RISC-V words and provides an assembler for the word alphabets.
package prog

import (
	"fmt"

	"mltwist/internal/deps"
	"mltwist/internal/elf"
	"mltwist/internal/parser"
	"mltwist/internal/riscv"
	"mltwist/pkg/model"
	"mltwist/verifh/rvref"
)

// Parser64 is the rv64ima front end.
var Parser64 = riscv.NewParser(riscv.Variant64, riscv.ExtM, riscv.ExtA)

// Ref64 is the matching reference configuration.
var Ref64 = rvref.Config{XLEN: 64, M: true, A: true}

// Parser32 is the rv32ima front end (instruction-pointer values are 4 bytes wide).
var Parser32 = riscv.NewParser(riscv.Variant32, riscv.ExtM, riscv.ExtA)

// Ref32 is the matching reference configuration.
var Ref32 = rvref.Config{XLEN: 32, M: true, A: true}

// Image encodes words little-endian.
func Image(words []uint32) []byte {
	out := make([]byte, 0, 4*len(words))
	for _, w := range words {
		out = append(out, byte(w), byte(w>>8), byte(w>>16), byte(w>>24))
	}
	return out
}

// Seg is a run of words at an address.
type Seg struct {
	Base  uint64   `json:"base"`
	Words []uint32 `json:"words"`
}

// Instructions parses the segments through the real elf block store and the
// real parser.
func Instructions(segs []Seg) ([]parser.Instruction, error) {
	return InstructionsWith(segs, Parser64)
}

// InstructionsWith is Instructions with the given front end.
func InstructionsWith(segs []Seg, front parser.Parser) ([]parser.Instruction, error) {
	var bs []elf.VerifBlock
	for _, s := range segs {
		bs = append(bs, elf.VerifBlock{Begin: model.Addr(s.Base), Bytes: Image(s.Words)})
	}
	mem, err := elf.VerifNewMemory(bs)
	if err != nil {
		return nil, err
	}
	return parser.Parse(mem, front)
}

// Code builds the code model.
func Code(entry uint64, ins []parser.Instruction) (*deps.Code, error) {
	cp := make([]parser.Instruction, len(ins))
	copy(cp, ins)
	return deps.NewCode(model.Addr(entry), cp)
}

// Assembler helpers (RV64).
func R(f7, rs2, rs1, f3, rd, op uint32) uint32 {
	return f7<<25 | rs2<<20 | rs1<<15 | f3<<12 | rd<<7 | op
}
func I(imm int64, rs1, f3, rd, op uint32) uint32 {
	return rvref.EncI(imm) | rs1<<15 | f3<<12 | rd<<7 | op
}
func S(imm int64, rs2, rs1, f3, op uint32) uint32 {
	return rvref.EncS(imm) | rs2<<20 | rs1<<15 | f3<<12 | op
}
func B(imm int64, rs2, rs1, f3 uint32) uint32 {
	return rvref.EncB(imm) | rs2<<20 | rs1<<15 | f3<<12 | 0x63
}
func Addi(rd, rs1 uint32, imm int64) uint32 { return I(imm, rs1, 0, rd, 0x13) }
func Add(rd, rs1, rs2 uint32) uint32        { return R(0, rs2, rs1, 0, rd, 0x33) }
func Sub(rd, rs1, rs2 uint32) uint32        { return R(0x20, rs2, rs1, 0, rd, 0x33) }
func Mul(rd, rs1, rs2 uint32) uint32        { return R(1, rs2, rs1, 0, rd, 0x33) }
func Div(rd, rs1, rs2 uint32) uint32        { return R(1, rs2, rs1, 4, rd, 0x33) }
func Addw(rd, rs1, rs2 uint32) uint32       { return R(0, rs2, rs1, 0, rd, 0x3b) }
func Ld(rd, rs1 uint32, imm int64) uint32   { return I(imm, rs1, 3, rd, 0x03) }
func Lw(rd, rs1 uint32, imm int64) uint32   { return I(imm, rs1, 2, rd, 0x03) }
func Lh(rd, rs1 uint32, imm int64) uint32   { return I(imm, rs1, 1, rd, 0x03) }
func Lb(rd, rs1 uint32, imm int64) uint32   { return I(imm, rs1, 0, rd, 0x03) }
func Lbu(rd, rs1 uint32, imm int64) uint32  { return I(imm, rs1, 4, rd, 0x03) }
func Sd(rs2, rs1 uint32, imm int64) uint32  { return S(imm, rs2, rs1, 3, 0x23) }
func Sw(rs2, rs1 uint32, imm int64) uint32  { return S(imm, rs2, rs1, 2, 0x23) }
func Sh(rs2, rs1 uint32, imm int64) uint32  { return S(imm, rs2, rs1, 1, 0x23) }
func Sb(rs2, rs1 uint32, imm int64) uint32  { return S(imm, rs2, rs1, 0, 0x23) }
func Beq(rs1, rs2 uint32, off int64) uint32 { return B(off, rs2, rs1, 0) }
func Bne(rs1, rs2 uint32, off int64) uint32 { return B(off, rs2, rs1, 1) }
func Jal(rd uint32, off int64) uint32       { return rvref.EncJ(off) | rd<<7 | 0x6f }
func Jalr(rd, rs1 uint32, imm int64) uint32 { return I(imm, rs1, 0, rd, 0x67) }
func Lui(rd uint32, imm20 uint32) uint32    { return imm20<<12 | rd<<7 | 0x37 }
func Auipc(rd uint32, imm20 uint32) uint32  { return imm20<<12 | rd<<7 | 0x17 }
func Csrrw(rd, rs1, csr uint32) uint32      { return csr<<20 | rs1<<15 | 1<<12 | rd<<7 | 0x73 }
func AmoaddW(rd, rs1, rs2 uint32) uint32    { return rs2<<20 | rs1<<15 | 2<<12 | rd<<7 | 0x2f }
func LrW(rd, rs1 uint32) uint32             { return 2<<27 | rs1<<15 | 2<<12 | rd<<7 | 0x2f }
func ScW(rd, rs1, rs2 uint32) uint32        { return 3<<27 | rs2<<20 | rs1<<15 | 2<<12 | rd<<7 | 0x2f }

const (
	Nop    uint32 = 0x00000013
	Fence  uint32 = 0x0ff0000f
	FenceI uint32 = 0x0000100f
	Ecall  uint32 = 0x00000073
	Ebreak uint32 = 0x00100073
)

// Dis names a word (reference decoder) for messages.
func Dis(w uint32) string {
	n := rvref.DecodeFast(w, Ref64)
	if n == "" {
		return fmt.Sprintf("?%08x", w)
	}
	in, err := Parser64.Parse(0, Image([]uint32{w}))
	if err != nil {
		return n
	}
	txt := n
	func() {
		defer func() { recover() }()
		txt = in.Details.String()
	}()
	return txt
}
