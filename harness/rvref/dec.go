// Package rvref is a reference RV32/RV64 IMA+Zicsr decoder and interpreter
// written from the RISC-V unprivileged specification (opcode listings and
// instruction descriptions), independent of mltwist/internal/riscv.
//
// It includes the tool's documented approximations: SC always succeeds and
// writes 0, LR is a plain load, FENCE, FENCE.I, ECALL, EBREAK change no state.
package rvref

// Config selects the variant and extensions.
type Config struct {
	XLEN int // 32 or 64
	M, A bool
}

type row struct {
	match, mask uint32
	name        string
	rv64only    bool
	rv32only    bool
	ext         byte // 'I', 'M', 'A'
}

var table []row

func add(name string, match, mask uint32, ext byte, rv64only bool) {
	table = append(table, row{match: match, mask: mask, name: name, ext: ext, rv64only: rv64only})
}

const (
	mOpcode = 0x7f
	mF3     = 0x7000
	mF7     = 0xfe000000
)

func init() {
	op := func(name string, opcode uint32) { add(name, opcode, mOpcode, 'I', false) }
	opf3 := func(name string, f3, opcode uint32, rv64 bool) {
		add(name, f3<<12|opcode, mOpcode|mF3, 'I', rv64)
	}
	opf7 := func(name string, f7, f3, opcode uint32, ext byte, rv64 bool) {
		add(name, f7<<25|f3<<12|opcode, mOpcode|mF3|mF7, ext, rv64)
	}
	op("lui", 0b0110111)
	op("auipc", 0b0010111)
	op("jal", 0b1101111)
	opf3("jalr", 0, 0b1100111, false)
	for f3, n := range map[uint32]string{0: "beq", 1: "bne", 4: "blt", 5: "bge", 6: "bltu", 7: "bgeu"} {
		opf3(n, f3, 0b1100011, false)
	}
	for f3, n := range map[uint32]string{0: "lb", 1: "lh", 2: "lw", 4: "lbu", 5: "lhu"} {
		opf3(n, f3, 0b0000011, false)
	}
	opf3("ld", 3, 0b0000011, true)
	opf3("lwu", 6, 0b0000011, true)
	for f3, n := range map[uint32]string{0: "sb", 1: "sh", 2: "sw"} {
		opf3(n, f3, 0b0100011, false)
	}
	opf3("sd", 3, 0b0100011, true)
	for f3, n := range map[uint32]string{0: "addi", 2: "slti", 3: "sltiu", 4: "xori", 6: "ori", 7: "andi"} {
		opf3(n, f3, 0b0010011, false)
	}
	// immediate shifts: RV32 imm[11:5] fixed, RV64 imm[11:6] fixed
	sh := func(name string, f3 uint32, arith bool) {
		var hi uint32
		if arith {
			hi = 0x40000000
		}
		table = append(table, row{match: hi | f3<<12 | 0b0010011, mask: mOpcode | mF3 | 0xfe000000, name: name, ext: 'I', rv32only: true})
		table = append(table, row{match: hi | f3<<12 | 0b0010011, mask: mOpcode | mF3 | 0xfc000000, name: name, ext: 'I', rv64only: true})
	}
	sh("slli", 1, false)
	sh("srli", 5, false)
	sh("srai", 5, true)
	for f3, n := range map[uint32]string{0: "add", 1: "sll", 2: "slt", 3: "sltu", 4: "xor", 5: "srl", 6: "or", 7: "and"} {
		opf7(n, 0, f3, 0b0110011, 'I', false)
	}
	opf7("sub", 0b0100000, 0, 0b0110011, 'I', false)
	opf7("sra", 0b0100000, 5, 0b0110011, 'I', false)
	for f3, n := range map[uint32]string{0: "mul", 1: "mulh", 2: "mulhsu", 3: "mulhu", 4: "div", 5: "divu", 6: "rem", 7: "remu"} {
		opf7(n, 1, f3, 0b0110011, 'M', false)
	}
	opf3("addiw", 0, 0b0011011, true)
	opf7("slliw", 0, 1, 0b0011011, 'I', true)
	opf7("srliw", 0, 5, 0b0011011, 'I', true)
	opf7("sraiw", 0b0100000, 5, 0b0011011, 'I', true)
	opf7("addw", 0, 0, 0b0111011, 'I', true)
	opf7("sllw", 0, 1, 0b0111011, 'I', true)
	opf7("srlw", 0, 5, 0b0111011, 'I', true)
	opf7("subw", 0b0100000, 0, 0b0111011, 'I', true)
	opf7("sraw", 0b0100000, 5, 0b0111011, 'I', true)
	for f3, n := range map[uint32]string{0: "mulw", 4: "divw", 5: "divuw", 6: "remw", 7: "remuw"} {
		opf7(n, 1, f3, 0b0111011, 'M', true)
	}
	// fence: fm, rd, rs1 zero; pred/succ free. fence.i: exact word.
	add("fence", 0x0000000f, 0xf00fffff, 'I', false)
	add("fence.i", 0x0000100f, 0xffffffff, 'I', false)
	add("ecall", 0x00000073, 0xffffffff, 'I', false)
	add("ebreak", 0x00100073, 0xffffffff, 'I', false)
	for f3, n := range map[uint32]string{1: "csrrw", 2: "csrrs", 3: "csrrc", 5: "csrrwi", 6: "csrrsi", 7: "csrrci"} {
		opf3(n, f3, 0b1110011, false)
	}
	amo := func(n string, f5 uint32) {
		mask := uint32(mOpcode | mF3 | 0xf8000000)
		if n == "lr" {
			mask |= 0x01f00000 // rs2 = 0
		}
		add(n+".w", f5<<27|2<<12|0b0101111, mask, 'A', false)
		add(n+".d", f5<<27|3<<12|0b0101111, mask, 'A', true)
	}
	amo("lr", 0b00010)
	amo("sc", 0b00011)
	amo("amoswap", 0b00001)
	amo("amoadd", 0b00000)
	amo("amoxor", 0b00100)
	amo("amoand", 0b01100)
	amo("amoor", 0b01000)
	amo("amomin", 0b10000)
	amo("amomax", 0b10100)
	amo("amominu", 0b11000)
	amo("amomaxu", 0b11100)
}

// Decode returns the mnemonic of w in configuration c, or "" if w is not an
// instruction of c.
func Decode(w uint32, c Config) string {
	if w&3 != 3 {
		return ""
	}
	for i := range table {
		r := &table[i]
		if w&r.mask != r.match {
			continue
		}
		if r.rv64only && c.XLEN != 64 || r.rv32only && c.XLEN != 32 {
			continue
		}
		if r.ext == 'M' && !c.M || r.ext == 'A' && !c.A {
			continue
		}
		return r.name
	}
	return ""
}

// Names lists all mnemonics of the table.
func Names() []string {
	seen := map[string]bool{}
	var out []string
	for _, r := range table {
		if !seen[r.name] {
			seen[r.name] = true
			out = append(out, r.name)
		}
	}
	return out
}

// Fast decoder: opcode-indexed rows.
var byOpcode [128][]int

func init() {
	for i, r := range table {
		byOpcode[r.match&0x7f] = append(byOpcode[r.match&0x7f], i)
	}
}

// DecodeFast is Decode with a first-level index on the major opcode.
func DecodeFast(w uint32, c Config) string {
	for _, i := range byOpcode[w&0x7f] {
		r := &table[i]
		if w&r.mask != r.match {
			continue
		}
		if r.rv64only && c.XLEN != 64 || r.rv32only && c.XLEN != 32 {
			continue
		}
		if r.ext == 'M' && !c.M || r.ext == 'A' && !c.A {
			continue
		}
		return r.name
	}
	return ""
}

// Row is one decoder row visible to the harnesses.
type Row struct {
	Name        string
	Match, Mask uint32
}

// Rows lists the rows enabled in configuration c.
func Rows(c Config) []Row {
	var out []Row
	for _, r := range table {
		if r.rv64only && c.XLEN != 64 || r.rv32only && c.XLEN != 32 {
			continue
		}
		if r.ext == 'M' && !c.M || r.ext == 'A' && !c.A {
			continue
		}
		out = append(out, Row{r.name, r.match, r.mask})
	}
	return out
}

// Format classifies an instruction's operand format:
// R I S B U J SH CSR CSRI AMO LR FENCE FIX.
func Format(name string) string {
	switch name {
	case "lui", "auipc":
		return "U"
	case "jal":
		return "J"
	case "jalr", "lb", "lh", "lw", "ld", "lbu", "lhu", "lwu", "addi", "slti", "sltiu", "xori", "ori", "andi", "addiw":
		return "I"
	case "sb", "sh", "sw", "sd":
		return "S"
	case "beq", "bne", "blt", "bge", "bltu", "bgeu":
		return "B"
	case "slli", "srli", "srai", "slliw", "srliw", "sraiw":
		return "SH"
	case "csrrw", "csrrs", "csrrc":
		return "CSR"
	case "csrrwi", "csrrsi", "csrrci":
		return "CSRI"
	case "fence":
		return "FENCE"
	case "fence.i", "ecall", "ebreak":
		return "FIX"
	case "lr.w", "lr.d":
		return "LR"
	}
	for i := 0; i < len(name); i++ {
		if name[i] == '.' {
			return "AMO"
		}
	}
	return "R"
}

// Encoders of immediates into instruction bits.
func EncI(imm int64) uint32 { return uint32(imm&0xfff) << 20 }
func EncS(imm int64) uint32 { return uint32(imm>>5&0x7f)<<25 | uint32(imm&0x1f)<<7 }
func EncB(imm int64) uint32 {
	return uint32(imm>>12&1)<<31 | uint32(imm>>5&0x3f)<<25 | uint32(imm>>1&0xf)<<8 | uint32(imm>>11&1)<<7
}
func EncU(imm20 uint32) uint32 { return imm20 << 12 }
func EncJ(imm int64) uint32 {
	return uint32(imm>>20&1)<<31 | uint32(imm>>1&0x3ff)<<21 | uint32(imm>>11&1)<<20 | uint32(imm>>12&0xff)<<12
}
