package rvref

import (
	"math/bits"
	"strings"
)

// Machine is a RISC-V hart with byte-addressed memory supplied by functions.
type Machine struct {
	Cfg Config
	PC  uint64
	X   [32]uint64
	// CSR read/write hooks (indexed by unsigned 12-bit number).
	CSR map[uint32]uint64
	// CSRInit gives the value of a CSR never written.
	CSRInit func(n uint32) uint64
	// Load returns the byte at an address (after Stores overlay).
	Load func(addr uint64) byte
	// Stores collects memory writes (address -> byte).
	Stores map[uint64]byte
	// TouchedCSR lists the CSR numbers accessed.
	TouchedCSR map[uint32]bool
}

func (m *Machine) mask() uint64 {
	if m.Cfg.XLEN == 32 {
		return 0xffffffff
	}
	return ^uint64(0)
}

func (m *Machine) sx(v uint64) uint64 { // canonical register value
	return v & m.mask()
}

func (m *Machine) rd8(a uint64) byte {
	a &= m.mask()
	if b, ok := m.Stores[a]; ok {
		return b
	}
	return m.Load(a)
}

func (m *Machine) read(a uint64, n int) uint64 {
	var v uint64
	for i := n - 1; i >= 0; i-- {
		v = v<<8 | uint64(m.rd8(a+uint64(i)))
	}
	return v
}

func (m *Machine) write(a uint64, n int, v uint64) {
	for i := 0; i < n; i++ {
		m.Stores[(a+uint64(i))&m.mask()] = byte(v >> (8 * i))
	}
}

func sext(v uint64, bitsN uint) uint64 {
	sh := 64 - bitsN
	return uint64(int64(v<<sh) >> sh)
}

// signed value of a register for this XLEN
func (m *Machine) s(v uint64) int64 {
	if m.Cfg.XLEN == 32 {
		return int64(int32(uint32(v)))
	}
	return int64(v)
}

func (m *Machine) csrGet(n uint32) uint64 {
	m.TouchedCSR[n] = true
	if v, ok := m.CSR[n]; ok {
		return v
	}
	return m.CSRInit(n) & m.mask()
}

func (m *Machine) csrSet(n uint32, v uint64) {
	m.TouchedCSR[n] = true
	m.CSR[n] = v & m.mask()
}

// Imm extracts the immediates of w.
func ImmI(w uint32) int64 { return int64(int32(w) >> 20) }
func ImmS(w uint32) int64 { return int64(int32(w&0xfe000000)>>20) | int64(w>>7&0x1f) }
func ImmB(w uint32) int64 {
	return int64(int32(w&0x80000000)>>19) | int64(w>>7&1)<<11 | int64(w>>25&0x3f)<<5 | int64(w>>8&0xf)<<1
}
func ImmU(w uint32) int64 { return int64(int32(w & 0xfffff000)) }
func ImmJ(w uint32) int64 {
	return int64(int32(w&0x80000000)>>11) | int64(w>>12&0xff)<<12 | int64(w>>20&1)<<11 | int64(w>>21&0x3ff)<<1
}

// Step executes the instruction word w (already known to decode to name) at
// m.PC. x0 stays zero.
func (m *Machine) Step(w uint32, name string) {
	rd, rs1, rs2 := w>>7&31, w>>15&31, w>>20&31
	a, b := m.X[rs1], m.X[rs2]
	xlen := uint(m.Cfg.XLEN)
	next := (m.PC + 4) & m.mask()
	set := func(v uint64) {
		if rd != 0 {
			m.X[rd] = m.sx(v)
		}
	}
	setw := func(v uint64) { set(sext(v&0xffffffff, 32)) }
	shmask := uint64(xlen - 1)
	switch name {
	case "lui":
		set(uint64(ImmU(w)))
	case "auipc":
		set(m.PC + uint64(ImmU(w)))
	case "jal":
		set(next)
		next = (m.PC + uint64(ImmJ(w))) & m.mask()
	case "jalr":
		t := (a + uint64(ImmI(w))) &^ 1
		set(next)
		next = t & m.mask()
	case "beq", "bne", "blt", "bge", "bltu", "bgeu":
		var take bool
		switch name {
		case "beq":
			take = a == b
		case "bne":
			take = a != b
		case "blt":
			take = m.s(a) < m.s(b)
		case "bge":
			take = m.s(a) >= m.s(b)
		case "bltu":
			take = a < b
		case "bgeu":
			take = a >= b
		}
		if take {
			next = (m.PC + uint64(ImmB(w))) & m.mask()
		}
	case "lb":
		set(sext(m.read(a+uint64(ImmI(w)), 1), 8))
	case "lh":
		set(sext(m.read(a+uint64(ImmI(w)), 2), 16))
	case "lw":
		set(sext(m.read(a+uint64(ImmI(w)), 4), 32))
	case "ld":
		set(m.read(a+uint64(ImmI(w)), 8))
	case "lbu":
		set(m.read(a+uint64(ImmI(w)), 1))
	case "lhu":
		set(m.read(a+uint64(ImmI(w)), 2))
	case "lwu":
		set(m.read(a+uint64(ImmI(w)), 4))
	case "sb":
		m.write(a+uint64(ImmS(w)), 1, b)
	case "sh":
		m.write(a+uint64(ImmS(w)), 2, b)
	case "sw":
		m.write(a+uint64(ImmS(w)), 4, b)
	case "sd":
		m.write(a+uint64(ImmS(w)), 8, b)
	case "addi":
		set(a + uint64(ImmI(w)))
	case "slti":
		if m.s(a) < ImmI(w) {
			set(1)
		} else {
			set(0)
		}
	case "sltiu":
		if a < m.sx(uint64(ImmI(w))) {
			set(1)
		} else {
			set(0)
		}
	case "xori":
		set(a ^ uint64(ImmI(w)))
	case "ori":
		set(a | uint64(ImmI(w)))
	case "andi":
		set(a & uint64(ImmI(w)))
	case "slli":
		set(a << (uint64(w>>20) & shmask))
	case "srli":
		set(a >> (uint64(w>>20) & shmask))
	case "srai":
		set(uint64(m.s(a) >> (uint64(w>>20) & shmask)))
	case "add":
		set(a + b)
	case "sub":
		set(a - b)
	case "sll":
		set(a << (b & shmask))
	case "slt":
		if m.s(a) < m.s(b) {
			set(1)
		} else {
			set(0)
		}
	case "sltu":
		if a < b {
			set(1)
		} else {
			set(0)
		}
	case "xor":
		set(a ^ b)
	case "srl":
		set(a >> (b & shmask))
	case "sra":
		set(uint64(m.s(a) >> (b & shmask)))
	case "or":
		set(a | b)
	case "and":
		set(a & b)
	case "addiw":
		setw(a + uint64(ImmI(w)))
	case "slliw":
		setw(a << (w >> 20 & 31))
	case "srliw":
		setw(uint64(uint32(a) >> (w >> 20 & 31)))
	case "sraiw":
		setw(uint64(int32(uint32(a)) >> (w >> 20 & 31)))
	case "addw":
		setw(a + b)
	case "subw":
		setw(a - b)
	case "sllw":
		setw(a << (b & 31))
	case "srlw":
		setw(uint64(uint32(a) >> (b & 31)))
	case "sraw":
		setw(uint64(int32(uint32(a)) >> (b & 31)))
	case "mul":
		set(a * b)
	case "mulh", "mulhsu", "mulhu":
		if xlen == 32 {
			var p int64
			switch name {
			case "mulh":
				p = m.s(a) * m.s(b)
			case "mulhsu":
				p = m.s(a) * int64(uint32(b))
			case "mulhu":
				p = int64(uint64(uint32(a)) * uint64(uint32(b)))
			}
			set(uint64(p) >> 32)
		} else {
			hi, _ := bits.Mul64(a, b)
			switch name {
			case "mulh":
				if int64(a) < 0 {
					hi -= b
				}
				if int64(b) < 0 {
					hi -= a
				}
			case "mulhsu":
				if int64(a) < 0 {
					hi -= b
				}
			}
			set(hi)
		}
	case "div":
		sa, sb := m.s(a), m.s(b)
		switch {
		case sb == 0:
			set(^uint64(0))
		case sb == -1: // includes overflow: -MIN wraps to MIN
			set(uint64(-sa))
		default:
			set(uint64(sa / sb))
		}
	case "divu":
		if b == 0 {
			set(^uint64(0))
		} else {
			set(a / b)
		}
	case "rem":
		sa, sb := m.s(a), m.s(b)
		switch {
		case sb == 0:
			set(uint64(sa))
		case sb == -1:
			set(0)
		default:
			set(uint64(sa % sb))
		}
	case "remu":
		if b == 0 {
			set(a)
		} else {
			set(a % b)
		}
	case "mulw":
		setw(a * b)
	case "divw":
		sa, sb := int32(uint32(a)), int32(uint32(b))
		switch {
		case sb == 0:
			set(^uint64(0))
		case sb == -1:
			setw(uint64(uint32(-sa)))
		default:
			setw(uint64(uint32(sa / sb)))
		}
	case "divuw":
		if uint32(b) == 0 {
			set(^uint64(0))
		} else {
			setw(uint64(uint32(a) / uint32(b)))
		}
	case "remw":
		sa, sb := int32(uint32(a)), int32(uint32(b))
		switch {
		case sb == 0:
			setw(uint64(uint32(sa)))
		case sb == -1:
			set(0)
		default:
			setw(uint64(uint32(sa % sb)))
		}
	case "remuw":
		if uint32(b) == 0 {
			setw(uint64(uint32(a)))
		} else {
			setw(uint64(uint32(a) % uint32(b)))
		}
	case "fence", "fence.i", "ecall", "ebreak":
	case "csrrw", "csrrs", "csrrc", "csrrwi", "csrrsi", "csrrci":
		n := w >> 20
		src := a
		if strings.HasSuffix(name, "i") {
			src = uint64(rs1)
		}
		t := m.csrGet(n)
		switch name[:5] {
		case "csrrw":
			m.csrSet(n, src)
		case "csrrs":
			m.csrSet(n, t|src)
		case "csrrc":
			m.csrSet(n, t&^src)
		}
		set(t)
	default:
		// atomics
		dot := strings.IndexByte(name, '.')
		if dot < 0 {
			panic("rvref: unknown instruction " + name)
		}
		n := 4
		if name[dot+1] == 'd' {
			n = 8
		}
		ext := func(v uint64) uint64 {
			if n == 4 {
				return sext(v&0xffffffff, 32)
			}
			return v
		}
		addr := a
		switch name[:dot] {
		case "lr":
			set(ext(m.read(addr, n)))
		case "sc":
			m.write(addr, n, b)
			set(0)
		default:
			t := m.read(addr, n)
			bv := b
			if n == 4 {
				bv &= 0xffffffff
			}
			var r uint64
			sl := func(x, y uint64) bool { return int64(ext(x)) < int64(ext(y)) }
			switch name[:dot] {
			case "amoswap":
				r = bv
			case "amoadd":
				r = t + bv
			case "amoxor":
				r = t ^ bv
			case "amoand":
				r = t & bv
			case "amoor":
				r = t | bv
			case "amomin":
				r = bv
				if sl(t, bv) {
					r = t
				}
			case "amomax":
				r = t
				if sl(t, bv) {
					r = bv
				}
			case "amominu":
				r = bv
				if t < bv {
					r = t
				}
			case "amomaxu":
				r = t
				if t < bv {
					r = bv
				}
			default:
				panic("rvref: unknown atomic " + name)
			}
			m.write(addr, n, r)
			set(ext(t))
		}
	}
	m.PC = next
}

// New returns a machine.
func New(c Config) *Machine {
	return &Machine{Cfg: c, CSR: map[uint32]uint64{}, Stores: map[uint64]byte{}, TouchedCSR: map[uint32]bool{},
		CSRInit: func(uint32) uint64 { return 0 }, Load: func(uint64) byte { return 0 }}
}
