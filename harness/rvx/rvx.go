// Package rvx binds the lifted effects of mltwist's RISC-V front end to the
// reference machine: builds pre-states, applies effects with the independent
// IR evaluator and compares with rvref.
package rvx

import (
	"fmt"
	"math/big"
	"sort"
	"strconv"
	"strings"

	"mltwist/internal/riscv"
	"mltwist/pkg/expr"
	"mltwist/pkg/model"
	"mltwist/verifh/ir"
	"mltwist/verifh/rvref"
)

// Cfg is a parser configuration.
type Cfg struct {
	XLEN int  `json:"xlen"`
	M    bool `json:"m"`
	A    bool `json:"a"`
}

func (c Cfg) Ref() rvref.Config { return rvref.Config{XLEN: c.XLEN, M: c.M, A: c.A} }

func (c Cfg) String() string {
	s := fmt.Sprintf("rv%di", c.XLEN)
	if c.M {
		s += "m"
	}
	if c.A {
		s += "a"
	}
	return s
}

// AllCfgs lists the 8 configurations.
func AllCfgs() []Cfg {
	var out []Cfg
	for _, x := range []int{32, 64} {
		for _, m := range []bool{false, true} {
			for _, a := range []bool{false, true} {
				out = append(out, Cfg{x, m, a})
			}
		}
	}
	return out
}

// Parser builds the real parser of a configuration (extension order as given).
func Parser(c Cfg) riscv.Parser { return ParserArgs(c, "") }

// ParserArgs builds the parser of configuration c with its extension list passed in the
// given spelling: "" = ascending without repetition; "rev" = descending; "dup" = every
// extension twice; "revdup" = descending, twice. The configuration is the same set.
func ParserArgs(c Cfg, spelling string) riscv.Parser {
	v := riscv.Variant32
	if c.XLEN == 64 {
		v = riscv.Variant64
	}
	var exts []riscv.Extension
	if c.M {
		exts = append(exts, riscv.ExtM)
	}
	if c.A {
		exts = append(exts, riscv.ExtA)
	}
	if spelling == "rev" || spelling == "revdup" {
		for i, j := 0, len(exts)-1; i < j; i, j = i+1, j-1 {
			exts[i], exts[j] = exts[j], exts[i]
		}
	}
	if spelling == "dup" || spelling == "revdup" {
		exts = append(exts, exts...)
	}
	return riscv.NewParser(v, exts...)
}

// WordBytes encodes w little-endian.
func WordBytes(w uint32) []byte { return []byte{byte(w), byte(w >> 8), byte(w >> 16), byte(w >> 24)} }

// Pre is a machine pre-state: explicit registers, derived CSR and memory.
type Pre struct {
	X    [32]uint64
	Seed uint64
	XLEN int
}

func mix(a, seed uint64) uint64 {
	h := a*0x9e3779b97f4a7c15 ^ seed*0xc2b2ae3d27d4eb4f
	h ^= h >> 31
	h *= 0xd6e8feb86659fd93
	h ^= h >> 29
	return h
}

func (p *Pre) mask() uint64 {
	if p.XLEN == 32 {
		return 0xffffffff
	}
	return ^uint64(0)
}

// MemByte is μ0.
func (p *Pre) MemByte(a uint64) byte { return byte(mix(a, p.Seed) >> 17) }

// CSRVal is the initial value of a CSR.
func (p *Pre) CSRVal(n uint32) uint64 { return mix(uint64(n)+0x1000, p.Seed+7) & p.mask() }

// Result of applying effects.
type Post struct {
	Regs   map[expr.Key]*big.Int // written registers (incl. csr, ip)
	Mem    map[string]byte       // address (decimal string of big.Int) -> byte, writes only
	Reads  []Access
	Writes []Access
	Wrap   bool // some memory access straddles 2^XLEN: outside the property's domain
}

type Access struct {
	Reg  expr.Key
	Mem  bool
	Addr *big.Int
	W    expr.Width
}

// BadKey reports a key which is not x1..x31, csr0..csr4095 or (for writes) ip.
func BadKey(k expr.Key, write bool) string {
	s := string(k)
	if write && k == expr.IPKey {
		return ""
	}
	if strings.HasPrefix(s, "csr") {
		n, err := strconv.Atoi(s[3:])
		if err != nil || n < 0 || n > 4095 || strconv.Itoa(n) != s[3:] {
			return "bad CSR name " + s
		}
		return ""
	}
	if strings.HasPrefix(s, "x") {
		n, err := strconv.Atoi(s[1:])
		if err != nil || strconv.Itoa(n) != s[1:] || n > 31 || n < 0 {
			return "bad register name " + s
		}
		if n == 0 {
			return "x0 used as a register"
		}
		return ""
	}
	return "unknown key " + s
}

// Apply evaluates effs in the pre-state and applies them in order.
func Apply(effs []expr.Effect, p *Pre) (post *Post, bad string) {
	post = &Post{Regs: map[expr.Key]*big.Int{}, Mem: map[string]byte{}}
	lim := new(big.Int).Lsh(big.NewInt(1), uint(p.XLEN))
	env := &ir.Env{
		Reg: func(k expr.Key) *big.Int {
			s := string(k)
			if strings.HasPrefix(s, "csr") {
				n, _ := strconv.Atoi(s[3:])
				return new(big.Int).SetUint64(p.CSRVal(uint32(n)))
			}
			if strings.HasPrefix(s, "x") {
				n, _ := strconv.Atoi(s[1:])
				if n >= 0 && n < 32 {
					return new(big.Int).SetUint64(p.X[n])
				}
			}
			return new(big.Int)
		},
		Mem: func(k expr.Key, a *big.Int) byte {
			if !a.IsUint64() {
				return 0xEE
			}
			return p.MemByte(a.Uint64())
		},
		OnReg: func(k expr.Key, w expr.Width) {
			if b := BadKey(k, false); b != "" && bad == "" {
				bad = "read: " + b
			}
			post.Reads = append(post.Reads, Access{Reg: k, W: w})
		},
		OnMem: func(k expr.Key, a *big.Int, w expr.Width) {
			if k != riscv.MemoryKey && bad == "" {
				bad = "read of memory space " + string(k)
			}
			if new(big.Int).Add(a, big.NewInt(int64(w))).Cmp(lim) > 0 {
				post.Wrap = true
			}
			post.Reads = append(post.Reads, Access{Mem: true, Addr: a, W: w})
		},
	}
	type pend struct {
		key  expr.Key
		val  *big.Int
		mem  bool
		addr *big.Int
		w    expr.Width
	}
	var ps []pend
	for _, e := range effs {
		switch x := e.(type) {
		case expr.RegStore:
			if b := BadKey(x.Key(), true); b != "" && bad == "" {
				bad = "write: " + b
			}
			ps = append(ps, pend{key: x.Key(), val: ir.Adjust(ir.Eval(x.Value(), env), x.Width()), w: x.Width()})
		case expr.MemStore:
			if x.Key() != riscv.MemoryKey && bad == "" {
				bad = "write of memory space " + string(x.Key())
			}
			a := ir.Eval(x.Addr(), env)
			if new(big.Int).Add(a, big.NewInt(int64(x.Width()))).Cmp(lim) > 0 {
				post.Wrap = true
			}
			ps = append(ps, pend{mem: true, addr: a, val: ir.Adjust(ir.Eval(x.Value(), env), x.Width()), w: x.Width()})
		default:
			if bad == "" {
				bad = fmt.Sprintf("unknown effect %T", e)
			}
		}
	}
	for _, q := range ps {
		if q.mem {
			post.Writes = append(post.Writes, Access{Mem: true, Addr: q.addr, W: q.w})
			for i := 0; i < int(q.w); i++ {
				a := new(big.Int).Add(q.addr, big.NewInt(int64(i)))
				post.Mem[a.String()] = byte(new(big.Int).Rsh(q.val, uint(i)*8).Uint64())
			}
		} else {
			post.Writes = append(post.Writes, Access{Reg: q.key, W: q.w})
			post.Regs[q.key] = q.val
		}
	}
	return post, bad
}

// RefRun executes one instruction on the reference machine.
func RefRun(c Cfg, w uint32, name string, pc uint64, p *Pre) *rvref.Machine {
	m := rvref.New(c.Ref())
	m.PC = pc
	m.X = p.X
	m.X[0] = 0
	m.CSRInit = p.CSRVal
	m.Load = p.MemByte
	m.Step(w, name)
	return m
}

// Compare returns "" if post equals the reference machine state after the
// step, else a description; cls is a coarse class for signatures.
func Compare(c Cfg, post *Post, m *rvref.Machine, pc uint64, p *Pre) (cls, diff string) {
	// pc
	next := (pc + 4) & p.mask()
	jumped := false
	if v, ok := post.Regs[expr.IPKey]; ok {
		jumped = true
		if !v.IsUint64() || v.Uint64() != m.PC {
			return "pc", fmt.Sprintf("instruction pointer written with %#x, reference %#x", v, m.PC)
		}
	}
	if !jumped && m.PC != next {
		return "pc", fmt.Sprintf("no instruction pointer write (falls through to %#x), reference jumps to %#x", next, m.PC)
	}
	for n := 1; n < 32; n++ {
		k := expr.Key("x" + strconv.Itoa(n))
		exp := m.X[n]
		got := new(big.Int).SetUint64(p.X[n])
		if v, ok := post.Regs[k]; ok {
			got = v
		}
		if !got.IsUint64() || got.Uint64() != exp {
			return "reg", fmt.Sprintf("x%d = %#x, reference %#x", n, got, exp)
		}
	}
	for k, v := range post.Regs {
		s := string(k)
		if strings.HasPrefix(s, "csr") {
			n, _ := strconv.Atoi(s[3:])
			exp, ok := m.CSR[uint32(n)]
			if !ok {
				exp = p.CSRVal(uint32(n))
			}
			if !v.IsUint64() || v.Uint64() != exp {
				return "csr", fmt.Sprintf("%s = %#x, reference %#x", s, v, exp)
			}
		}
	}
	for n, exp := range m.CSR {
		k := expr.Key("csr" + strconv.Itoa(int(n)))
		got := p.CSRVal(n)
		if v, ok := post.Regs[k]; ok {
			if !v.IsUint64() {
				return "csr", "csr too wide"
			}
			got = v.Uint64()
		}
		if got != exp {
			return "csr", fmt.Sprintf("csr%d = %#x, reference %#x", n, got, exp)
		}
	}
	// memory: union of written bytes
	addrs := map[uint64]bool{}
	for a := range m.Stores {
		addrs[a] = true
	}
	for s := range post.Mem {
		a, _ := new(big.Int).SetString(s, 10)
		if !a.IsUint64() {
			return "mem", "store beyond 2^64: " + s
		}
		addrs[a.Uint64()] = true
	}
	var al []uint64
	for a := range addrs {
		al = append(al, a)
	}
	sort.Slice(al, func(i, j int) bool { return al[i] < al[j] })
	for _, a := range al {
		exp, ok := m.Stores[a]
		if !ok {
			exp = p.MemByte(a)
		}
		got, ok := post.Mem[strconv.FormatUint(a, 10)]
		if !ok {
			got = p.MemByte(a)
		}
		if got != exp {
			return "mem", fmt.Sprintf("memory[%#x] = %#02x, reference %#02x", a, got, exp)
		}
	}
	return "", ""
}

// Lift parses w at pc.
func Lift(ps riscv.Parser, pc uint64, w uint32) (model.Instruction, error) {
	return ps.Parse(model.Addr(pc), WordBytes(w))
}
