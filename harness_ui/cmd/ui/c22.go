package main

import (
	"encoding/json"
	"fmt"
	"os"
	"path/filepath"
	"strings"
	"sync/atomic"
	"time"

	"mltwist/internal/consoleui/verifh/uix"
	"mltwist/verifh/elfgen"
	"mltwist/verifh/eng"
	"mltwist/verifh/procx"
	"mltwist/verifh/prog"
)

// C22 — console input never crashes the UI.

type uiLine struct {
	Line    string   `json:"line"`
	Answers []string `json:"answers,omitempty"`
}

type c22Case struct {
	Prog    string   `json:"program"`
	History []uiLine `json:"history"`
	Heights []int    `json:"heights"`
	// PTY: the history is typed into the real binary running under a pseudo-terminal
	PTY bool `json:"pty,omitempty"`
}

var c22Bin, c22BinDir string
var c22Seq atomic.Int64

// c22PTY types the lines of the history and then a run of quits into the real mltwist binary under a
// pseudo-terminal of 30 rows: whatever the lines are, the process must neither crash
// nor hang and must end with exit status 0 once the quits are consumed.
func c22PTY(c c22Case) *eng.Fail {
	if c22Bin == "" {
		dir, err := os.MkdirTemp("", "vc22")
		if err != nil {
			panic(err)
		}
		bin, err := procx.Build(dir)
		if err != nil {
			panic(err)
		}
		c22Bin, c22BinDir = bin, dir
	}
	p := progByName(c.Prog)
	var secs []elfgen.Section
	var progs []elfgen.Prog
	for _, sg := range p.Segs {
		code := prog.Image(sg.Words)
		secs = append(secs, elfgen.Section{Type: elfgen.SHT_PROGBITS, Flags: 6, Addr: sg.Base, Data: code, Size: uint64(len(code))})
		progs = append(progs, elfgen.Prog{Type: elfgen.PT_LOAD, Vaddr: sg.Base, Data: code, Memsz: uint64(len(code))})
	}
	f := elfgen.File{Type: elfgen.ET_EXEC, Entry: p.Entry, Sections: secs, Progs: progs}
	path := filepath.Join(c22BinDir, fmt.Sprintf("p%d-%d.elf", os.Getpid(), c22Seq.Add(1)))
	if err := os.WriteFile(path, f.Bytes(), 0o644); err != nil {
		panic(err)
	}
	defer os.Remove(path)
	// Each line is followed by its prompt answers and two empty lines (dismissing a "Press
	// ENTER"); the tail is a run of plain quits: whether a quit is read as a command or is
	// swallowed as the ENTER some message waits for, the next one is a command again, so the
	// application is left whatever state the lines put the input parity in. Prompts still
	// pending take the 1s.
	var in strings.Builder
	for _, l := range c.History {
		in.WriteString(l.Line + "\n")
		for _, a := range l.Answers {
			in.WriteString(a + "\n")
		}
		if len(l.Answers) > 0 {
			in.WriteString(strings.Repeat("1\n", 6))
		}
		in.WriteString("\n\n")
	}
	in.WriteString(strings.Repeat("q\n", 16))
	res, err := procx.RunPTYOpt(c22Bin, []string{path}, 30, 100, in.String(), 120*time.Second, true)
	if err != nil {
		return nil // no pseudo-terminal available here
	}
	what := fmt.Sprintf("program %s, lines %q typed into the real binary under a pty", c.Prog, in.String())
	if cr := res.Crashed(); cr != "" {
		return &eng.Fail{Sig: "pty " + cr, What: fmt.Sprintf("%s: %s; output tail %.400q", what, cr, tail(res.Stdout, 400)), Case: c}
	}
	if res.Exit != 0 {
		return &eng.Fail{Sig: fmt.Sprintf("pty exit %d", res.Exit), What: fmt.Sprintf("%s: exit status %d; output tail %.400q", what, res.Exit, tail(res.Stdout, 400)), Case: c}
	}
	return nil
}

func tail(s string, n int) string {
	if len(s) > n {
		return s[len(s)-n:]
	}
	return s
}

// (incl. lines of non-printing characters: what ESC, Ctrl-A, a tab followed by ENTER send)
var c22Common = []string{"", " ", "h", "q", "q x", "nosuch", "   q", "h 1 2", "\x1b", " \x01 ", "\t", "q\x00"}

var c22Alpha = map[string][]uiLine{}

func init() {
	mk := func(ls ...string) []uiLine {
		var out []uiLine
		for _, l := range ls {
			out = append(out, uiLine{Line: l})
		}
		return out
	}
	c22Alpha["disassemble"] = mk(append([]string{
		"   d 1", "d", "d x", "d -1", "d 99999999999999999999", "d 1", "d 2", "u 1", "g 0", "g 3", "g 999", "g 1 2",
		"m 1 2", "m 2 1", "m 0 1", "m 999 1", "m 1 999", "m 0 4", "m 4 0", "m 1", "b 1", "b 0", "b 999", "b 2 2",
		"f addi", "f [", "f zzz", "f a b", "f", "entry", "entry x", "alllines", "alllines 1", "e", "e 1",
	}, c22Common...)...)
	em := mk(append([]string{"s 1", "ms", "ms 1", "m memory", "m nokey", "m", "m memory x", "rmod nokey", "rmod"}, c22Common...)...)
	for _, a := range []string{"5", "0x10", "-1", "0xfffffffffffffff0", "", "_", "zz"} {
		em = append(em, uiLine{"s", []string{a}}, uiLine{"rmod x1", []string{a}}, uiLine{"rmod x5", []string{a, a}})
	}
	// answers outside the range of a narrow prompt (1-, 2- and 4-byte memory prompts of lbu/lw):
	// below the signed minimum of the width, above its unsigned maximum, below the int64 range
	for _, a := range []string{"-200", "-0x8001", "-3000000000", "-9223372036854775809", "0x1ff"} {
		em = append(em, uiLine{"s", []string{a}})
	}
	em = append(em, uiLine{"rmod x1", []string{"-9223372036854775809"}})
	c22Alpha["emulate"] = em
	c22Alpha["memview"] = mk(append([]string{
		"d 1", "d", "u 1", "g 0", "g 1", "g 999", "a 0", "a 5", "a 1", "a 0x2000", "a 0X2000", "a 0b101", "a 017", "a x", "a -1", "a",
		"a 99999999999999999999999", "a 0x1000", "a 4096 1",
	}, c22Common...)...)
}

func c22Replay(c c22Case) (*uix.Session, *eng.Fail) {
	if c.PTY {
		return nil, c22PTY(c)
	}
	p := progByName(c.Prog)
	s, err := newSession(p)
	if err != nil {
		return nil, &eng.Fail{Sig: "session setup", What: err.Error(), Case: c}
	}
	for i, l := range c.History {
		if s.Quit {
			break
		}
		depth := s.Depth()
		mode := s.ModeKind()
		res := s.Command(l.Line, l.Answers...)
		cmdWord := strings.Fields(l.Line + " _")[0]
		if res.Panic != nil {
			return s, &eng.Fail{Sig: fmt.Sprintf("%s command %q panic %s", mode, cmdWord, eng.PanicSite(res.Stack)),
				What: fmt.Sprintf("program %s, mode %s, after %d lines the input line %q crashes: %v", c.Prog, mode, i, l.Line, res.Panic), Case: c}
		}
		if res.Err != nil {
			return s, &eng.Fail{Sig: fmt.Sprintf("%s command %q returns-error", mode, cmdWord),
				What: fmt.Sprintf("line %q makes the command loop fail: %v", l.Line, res.Err), Case: c}
		}
		if strings.TrimSpace(l.Line) == "q" && !s.Quit && s.Depth() != depth-1 {
			return s, &eng.Fail{Sig: "quit pops " + fmt.Sprint(depth-s.Depth()), What: fmt.Sprintf("'q' changed the mode depth from %d to %d", depth, s.Depth()), Case: c}
		}
		if s.Quit {
			break
		}
		for _, h := range c.Heights {
			r := s.Render(h)
			if r.Panic != nil {
				return s, &eng.Fail{Sig: fmt.Sprintf("render panic %s in %s", eng.PanicSite(r.Stack), s.ModeKind()),
					What: fmt.Sprintf("program %s: rendering the %s screen at height %d after line %q crashes: %v", c.Prog, s.ModeKind(), h, l.Line, r.Panic), Case: c}
			}
			if r.Err != nil {
				return s, &eng.Fail{Sig: fmt.Sprintf("render returns-error in %s", s.ModeKind()),
					What: fmt.Sprintf("program %s: rendering the %s screen at height %d after line %q fails: %v", c.Prog, s.ModeKind(), h, l.Line, r.Err), Case: c}
			}
		}
	}
	return s, nil
}

func init() {
	checks["C22"] = eng.Check{
		Hist:        true,
		Procs:       12,
		Rule:        "explicit-state BFS over input-line histories of depth <=3 (thorough 4) from the initial state and 6 non-initial root states (inside the emulator, after emulation steps, inside memory views of an absent memory, of a written memory and of a memory written in the last window of the address space, after a move) on 4 programs (a 1-instruction code, a 3-block code with blocks of different sizes, a loop with a gap, a code with blocks of 2, 1 and 2 instructions), through the real UI.processCommand with stdin injected per command; line alphabets per mode: disassembler 43 lines plus, per program, moves between every pair of block header lines, a move of EVERY line onto itself and onto its successor, bounds of every line, and move/bounds/goto on each block's first instruction, emulator 41 lines with prompt answers from {5,0x10,-1,0xfffffffffffffff0,'',_,zz} and, for steps, answers outside the range of a narrow prompt {-200,-0x8001,-3000000000,-9223372036854775809,0x1ff}, memory view 27 lines (blank/space-only lines, lines of control characters (ESC, ^A between spaces, TAB, a NUL behind a command), missing/extra/non-numeric/negative/huge arguments, out-of-range line numbers, bad regexes, unknown commands, mode switches e, m <key>, q). After every command the composite screen is rendered at heights 24 and 50 as Run does. States are deduplicated by (mode stack, cursors, marks, code order, emulator registers and memory). A line that leaves the observable state unchanged is entered a second time (hidden state left by a failed command). Plus three long walks per program on a single session (600 lines cycling through the alphabet of the current mode; in the third every line is entered twice in a row). Oracle: no panic, the command loop does not fail, q pops exactly one mode. PROC conformance: every single disassembler line (thorough: every pair of disassembler lines and every emulator line after 'entry; e') typed into the real binary under a pseudo-terminal on two programs, followed by quits: no crash, no hang, exit status 0. Non-trivial = history reaching a new state.",
		Assumptions: []string{"every injected input ends with a tail of valid answers so prompts never hit EOF (horizon)", "terminal size is supplied by the harness (heights 24, 50); the system call path is only exercised by C26's pty runs"},
		Run: func(r *eng.Run) {
			uix.Discard = true // the oracle does not read the screen text
			depth := 3
			if !r.Quick() {
				depth = 4
			}
			item := 0
			for _, p := range uiProgs {
				seen := map[string]bool{}
				type node struct{ hist []uiLine }
				s0, err := newSession(p)
				if err != nil {
					r.Report(&eng.Fail{Sig: "session setup", What: err.Error(), Case: c22Case{Prog: p.Name}})
					continue
				}
				seen[s0.StateKey()] = true
				frontier := []node{{nil}}
				// also start from non-initial states: inside the emulator, after steps, inside
				// memory views of an absent / a present memory
				for _, root := range [][]uiLine{
					{{Line: "entry"}, {Line: "e"}},
					{{Line: "entry"}, {Line: "e"}, {Line: "s", Answers: []string{"7"}}, {Line: "s", Answers: []string{"0x2000"}}, {Line: "s"}},
					{{Line: "entry"}, {Line: "e"}, {Line: "m nokey"}},
					{{Line: "entry"}, {Line: "e"}, {Line: "s", Answers: []string{"7"}}, {Line: "s", Answers: []string{"0x2000"}}, {Line: "s"}, {Line: "s"}, {Line: "m memory"}},
					{{Line: "m 1 2"}, {Line: "g 3"}},
					// a store into the last 16-byte window of the address space, then its memory view
					{{Line: "entry"}, {Line: "e"}, {Line: "s", Answers: []string{"7"}}, {Line: "s", Answers: []string{"0xfffffffffffffff0"}}, {Line: "s", Answers: []string{"0xfffffffffffffff0"}}, {Line: "s", Answers: []string{"0xfffffffffffffff0"}}, {Line: "s", Answers: []string{"0xfffffffffffffff0"}}, {Line: "m memory"}},
				} {
					if sr, f := c22Replay(c22Case{Prog: p.Name, History: root, Heights: []int{24}}); f == nil && sr != nil && !sr.Quit {
						if k := sr.StateKey(); !seen[k] {
							seen[k] = true
							frontier = append(frontier, node{root})
						}
					} else if f != nil && r.Mine(0) {
						r.Report(f)
					}
				}
				// level 0 render
				for lvl := 0; lvl < depth; lvl++ {
					var next []node
					for _, nd := range frontier {
						// mode of this node
						c := c22Case{Prog: p.Name, History: nd.hist, Heights: []int{24, 50}}
						s, f := c22Replay(c)
						if f != nil || s == nil || s.Quit {
							continue
						}
						parentKey := s.StateKey()
						alpha := c22Alpha[s.ModeKind()]
						if v := s.ListView(); v != nil && s.ModeKind() == "disassemble" && (lvl+1 < depth || depth <= 2) {
							// (the per-program additions are used on all but the last level)
							// program-specific moves: every pair of block header lines, and the
							// first instruction line of each block with its neighbours
							var heads []int
							for li := 0; li < v.Lines.Len(); li++ {
								if strings.HasPrefix(v.Lines.Index(li).String(), "Block") {
									heads = append(heads, li)
								}
							}
							alpha = append([]uiLine{}, alpha...)
							for li := 0; li < v.Lines.Len(); li++ {
								// every line onto itself and onto its successor (headers, instructions, blank lines)
								alpha = append(alpha, uiLine{Line: fmt.Sprintf("m %d %d", li, li)}, uiLine{Line: fmt.Sprintf("m %d %d", li, li+1)}, uiLine{Line: fmt.Sprintf("b %d", li)})
							}
							for _, a := range heads {
								for _, b := range heads {
									if a != b {
										alpha = append(alpha, uiLine{Line: fmt.Sprintf("m %d %d", a, b)})
									}
								}
								alpha = append(alpha, uiLine{Line: fmt.Sprintf("m %d %d", a+1, a+2)}, uiLine{Line: fmt.Sprintf("b %d", a+1)}, uiLine{Line: fmt.Sprintf("g %d", a+1)})
							}
						}
						for _, l := range alpha {
							item++
							mine := r.Mine(item)
							if lvl+1 == depth && !mine {
								continue // last level: only explored by the owning worker
							}
							h := append(append([]uiLine{}, nd.hist...), l)
							cc := c22Case{Prog: p.Name, History: h, Heights: []int{24, 50}}
							s2, f := c22Replay(cc)
							if mine {
								r.Eval(1)
								r.Trans(1)
								r.Trace(1)
							}
							if f != nil {
								if mine {
									r.Report(f)
									r.Outcome(f.Sig)
								}
								continue
							}
							if s2 == nil {
								continue
							}
							k := s2.StateKey()
							if k == parentKey && mine {
								// the line left the observable state unchanged (typically an error): whatever it
								// left behind in hidden state shows when the very same line is entered again
								h2 := append(append([]uiLine{}, h...), l)
								_, f2 := c22Replay(c22Case{Prog: p.Name, History: h2, Heights: []int{24}})
								r.Eval(1)
								r.Trans(1)
								r.Trace(1)
								if f2 != nil {
									r.Report(f2)
									r.Outcome(f2.Sig)
								}
							}
							if !seen[k] {
								seen[k] = true
								if mine {
									r.State(1)
									r.Nontrivial(1)
								}
								next = append(next, node{h})
							}
						}
					}
					frontier = next
				}
			}
			// long walks: one session per program, 600 lines cycling through the alphabet of
			// whatever mode is current (quit only when nested), rendering after every line
			for pi, p := range uiProgs {
				if !r.Mine(pi) {
					continue
				}
				for _, stride := range []int{1, 7, -3} {
					twice := stride < 0 // every line is entered twice in a row
					if twice {
						stride = -stride
					}
					var hist []uiLine
					probe, err := newSession(p)
					if err != nil {
						continue
					}
					idx := 0
					for step := 0; step < 600 && !probe.Quit; step++ {
						alpha := c22Alpha[probe.ModeKind()]
						l := alpha[(idx*stride)%len(alpha)]
						idx++
						if strings.TrimSpace(l.Line) == "q" && probe.Depth() <= 1 {
							continue
						}
						hist = append(hist, l)
						res := probe.Command(l.Line, l.Answers...)
						if res.Panic != nil || res.Err != nil {
							break
						}
						if twice && !probe.Quit && strings.TrimSpace(l.Line) != "q" {
							hist = append(hist, l)
							if res := probe.Command(l.Line, l.Answers...); res.Panic != nil || res.Err != nil {
								break
							}
						}
					}
					_, f := c22Replay(c22Case{Prog: p.Name, History: hist, Heights: []int{24}})
					r.Eval(1)
					r.Trans(len(hist))
					r.Trace(1)
					if f != nil {
						r.Report(f)
						r.Outcome(f.Sig)
					}
				}
			}
			// PROC conformance: the same lines typed into the real binary under a pseudo-terminal
			// (UI.Run, the real line reader and view.Print): every single disassembler line on two
			// programs; thorough: every pair of disassembler lines, and every emulator line after 'e'
			ptyItem := 0
			ptyDo := func(c c22Case) {
				ptyItem++
				if !r.Mine(ptyItem) {
					return
				}
				f := c22PTY(c)
				r.Eval(1)
				r.Trace(1)
				r.Trans(len(c.History))
				if f != nil {
					r.Report(f)
					r.Outcome(f.Sig)
				}
			}
			for _, pn := range []string{"three-blocks", "one-instruction"} {
				dis := c22Alpha["disassemble"]
				for _, l := range dis {
					ptyDo(c22Case{Prog: pn, History: []uiLine{l}, PTY: true})
				}
				if !r.Quick() {
					for _, l1 := range dis {
						for _, l2 := range dis {
							ptyDo(c22Case{Prog: pn, History: []uiLine{l1, l2}, PTY: true})
						}
					}
					for _, l := range c22Alpha["emulate"] {
						ptyDo(c22Case{Prog: pn, History: []uiLine{{Line: "entry"}, {Line: "e"}, l}, PTY: true})
					}
				}
			}
			if c22BinDir != "" {
				os.RemoveAll(c22BinDir)
				c22Bin, c22BinDir = "", ""
			}
			if r.Mine(0) {
				r.Sample(c22Case{Prog: "three-blocks", History: []uiLine{{Line: "e"}, {Line: "s", Answers: []string{"0x10"}}}, Heights: []int{24, 50}})
				r.Note("programs=%d depth=%d", len(uiProgs), depth)
			}
		},
		Replay: func(r *eng.Run, raw json.RawMessage) *eng.Fail {
			var c c22Case
			if err := json.Unmarshal(raw, &c); err != nil {
				panic(err)
			}
			uix.Discard = true
			_, f := c22Replay(c)
			return f
		},
	}
}
