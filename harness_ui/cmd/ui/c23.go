package main

import (
	"encoding/json"
	"fmt"
	"strings"

	"mltwist/internal/consoleui/internal/lines"
	"mltwist/internal/consoleui/verifh/uix"
	"mltwist/verifh/eng"
)

// C23 — the disassembly listing always reflects the current code.

type c23Case struct {
	Prog    string   `json:"program"`
	History []uiLine `json:"history"`
}

func listingOf(v *lines.View) []string {
	out := make([]string, v.Lines.Len())
	for i := range out {
		out[i] = v.Lines.Index(i).String()
	}
	return out
}

// structural model of the listing from the public accessors of deps.Code.
func c23Model(s *uix.Session, got []string) string {
	i := 0
	next := func() (string, bool) {
		if i >= len(got) {
			return "", false
		}
		i++
		return got[i-1], true
	}
	for bi, b := range s.Code.Blocks() {
		if bi > 0 {
			l, ok := next()
			if !ok || l != "" {
				return fmt.Sprintf("expected a single blank line before block %d, got %q", bi+1, l)
			}
		}
		h, ok := next()
		if !ok || !strings.Contains(h, fmt.Sprintf("%d", bi+1)) || !strings.Contains(strings.ToLower(h), fmt.Sprintf("%x", b.Begin())) || !strings.HasPrefix(h, "Block") {
			return fmt.Sprintf("header of block at position %d (start %#x) is %q", bi+1, b.Begin(), h)
		}
		for _, in := range b.Instructions() {
			l, ok := next()
			var bs []string
			for _, x := range in.Bytes() {
				bs = append(bs, fmt.Sprintf("%02X", x))
			}
			if !ok || !strings.Contains(l, in.String()) || !strings.Contains(strings.ToUpper(l), strings.Join(bs, " ")) {
				return fmt.Sprintf("line of instruction %q (%s) in block %d is %q", in.String(), strings.Join(bs, " "), bi+1, l)
			}
		}
	}
	for i < len(got) {
		l, _ := next()
		if l != "" {
			return fmt.Sprintf("unexpected trailing line %q", l)
		}
	}
	return ""
}

func c23Check(s *uix.Session, c c23Case, before []string, beforeKey string) *eng.Fail {
	v := s.ListView()
	if v == nil {
		return nil
	}
	got := listingOf(v)
	fresh := listingOf(lines.NewView(s.Code))
	if strings.Join(got, "\n") != strings.Join(fresh, "\n") {
		diff := ""
		for i := range got {
			if i >= len(fresh) || got[i] != fresh[i] {
				f := "<none>"
				if i < len(fresh) {
					f = fresh[i]
				}
				diff = fmt.Sprintf("line %d is %q, fresh rendering has %q", i, got[i], f)
				break
			}
		}
		if len(got) != len(fresh) {
			diff += fmt.Sprintf(" (listing has %d lines, fresh rendering %d)", len(got), len(fresh))
		}
		last := c.History[len(c.History)-1].Line
		kind := "instruction-move"
		if f := strings.Fields(last); len(f) == 3 {
			var a int
			fmt.Sscan(f[1], &a)
			if a < len(before) && strings.HasPrefix(before[a], "Block") {
				kind = "block-move"
			}
		}
		return &eng.Fail{Sig: "listing stale after " + kind, What: fmt.Sprintf("program %s after %v: %s", c.Prog, c.History, diff), Case: c}
	}
	if m := c23Model(s, got); m != "" {
		return &eng.Fail{Sig: "listing structure", What: fmt.Sprintf("program %s after %v: %s", c.Prog, c.History, m), Case: c}
	}
	if before != nil && s.CodeKey() == beforeKey && strings.Join(before, "\n") != strings.Join(got, "\n") {
		return &eng.Fail{Sig: "rejected move changes listing", What: fmt.Sprintf("program %s: line %q left the code unchanged but changed the listing", c.Prog, c.History[len(c.History)-1].Line), Case: c}
	}
	return nil
}

func c23Replay(c c23Case) (*uix.Session, *eng.Fail) {
	p := progByName(c.Prog)
	s, err := newSession(p)
	if err != nil {
		return nil, nil
	}
	for i, l := range c.History {
		var before []string
		if v := s.ListView(); v != nil {
			before = listingOf(v)
		}
		key := s.CodeKey()
		res := s.Command(l.Line, l.Answers...)
		if res.Panic != nil {
			return s, &eng.Fail{Sig: "move command panic " + eng.PanicSite(res.Stack), What: fmt.Sprintf("line %q crashes: %v", l.Line, res.Panic), Case: c}
		}
		cc := c
		cc.History = c.History[:i+1]
		if f := c23Check(s, cc, before, key); f != nil {
			return s, f
		}
	}
	return s, nil
}

func init() {
	checks["C23"] = eng.Check{
		Hist: true,
		Rule: "explicit-state BFS to closure over 'move N M' for EVERY pair of line numbers 0..Len+1 on the 3-block program with blocks of 3, 2 and 4 instructions on the loop-with-gap program (blocks of 1, 3, 1) and on a program with blocks of 2, 1, 2 (thorough also: a 4-block program with blocks of 3, 2, 2, 4 and a 5-block program in two segments) (state = block order + per-block instruction order; successor = fresh real UI session + replay + one command line through processCommand). After every command the listing (marks ignored) must equal a fresh lines.NewView of the same code and the structural model (one 'Block <position>: 0x<start>' header per block in current order, instruction lines with text and bytes in current order, single blank separators); a command that leaves the code unchanged leaves the listing unchanged. Plus one long walk per program on a single session (every move pair twice, ~600 commands) with the same oracle after every command. Non-trivial = accepted move. A command that leaves the code unchanged is entered a second time.",
		Run: func(r *eng.Run) {
			item := 0
			for _, pn := range deepNames(r, []string{"three-blocks", "loop-with-gap", "sym-blocks", "synthetic-long"}) {
				p := progByName(pn)
				s0, err := newSession(p)
				if err != nil {
					continue
				}
				n := s0.ListView().Lines.Len()
				seen := map[string]bool{s0.CodeKey(): true}
				queue := [][]uiLine{nil}
				if r.Mine(0) {
					r.State(1)
				}
				for len(queue) > 0 {
					h := queue[0]
					queue = queue[1:]
					parentKey := ""
					if ps, _ := c23Replay(c23Case{Prog: pn, History: h}); ps != nil {
						parentKey = ps.CodeKey()
					}
					for a := 0; a <= n+1; a++ {
						for b := 0; b <= n+1; b++ {
							item++
							hh := append(append([]uiLine{}, h...), uiLine{Line: fmt.Sprintf("m %d %d", a, b)})
							// every worker must follow the same frontier, so the transition is executed by
							// all; oracles are evaluated on each, counted by the owner only.
							s, f := c23Replay(c23Case{Prog: pn, History: hh})
							mine := r.Mine(item)
							if mine {
								r.Eval(1)
								r.Trans(1)
								r.Trace(1)
							}
							if f != nil {
								if mine {
									r.Report(f)
									r.Outcome(f.Sig)
								}
								continue
							}
							if s == nil {
								continue
							}
							if s.CodeKey() == parentKey && mine {
								// the command left the code unchanged (rejected, or a move onto itself): the same
								// command once more exposes whatever it left behind in state the key does not show
								h3 := append(append([]uiLine{}, hh...), hh[len(hh)-1])
								if _, f3 := c23Replay(c23Case{Prog: pn, History: h3}); f3 != nil {
									r.Report(f3)
									r.Outcome(f3.Sig)
								}
								r.Eval(1)
								r.Trans(1)
							}
							if k := s.CodeKey(); !seen[k] {
								seen[k] = true
								queue = append(queue, hh)
								if mine {
									r.State(1)
									r.Nontrivial(1)
								}
							}
						}
					}
				}
			}
			// long-lived walk: ONE session per program executes every move pair twice in a fixed
			// order (accepted and rejected ones), so hidden state accumulated over a long history
			// (marks, block starts) is exercised; the oracle runs after every command.
			for _, pn := range deepNames(r, []string{"three-blocks", "loop-with-gap", "sym-blocks", "synthetic-long"}) {
				p := progByName(pn)
				s0, err := newSession(p)
				if err != nil {
					continue
				}
				n := s0.ListView().Lines.Len()
				var hist []uiLine
				for round := 0; round < 2; round++ {
					for a := 0; a <= n; a++ {
						for b := n; b >= 0; b-- {
							hist = append(hist, uiLine{Line: fmt.Sprintf("m %d %d", (a+round*3)%(n+1), b)})
						}
					}
				}
				_, f := c23Replay(c23Case{Prog: pn, History: hist})
				r.Eval(1)
				r.Trans(len(hist))
				r.Trace(1)
				if f != nil {
					r.Report(f)
					r.Outcome(f.Sig)
				}
			}
			if r.Mine(0) {
				r.Sample(c23Case{Prog: "three-blocks", History: []uiLine{{Line: "m 0 5"}, {Line: "m 2 1"}}})
			}
		},
		Replay: func(r *eng.Run, raw json.RawMessage) *eng.Fail {
			var c c23Case
			if err := json.Unmarshal(raw, &c); err != nil {
				panic(err)
			}
			_, f := c23Replay(c)
			return f
		},
	}
}
