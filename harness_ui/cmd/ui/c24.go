package main

import (
	"encoding/json"
	"fmt"
	"os"
	"path/filepath"
	"strings"
	"sync/atomic"
	"time"

	"mltwist/internal/consoleui/emulate"
	"mltwist/internal/consoleui/internal/lines"
	"mltwist/internal/consoleui/internal/memview"
	"mltwist/internal/consoleui/internal/view"
	"mltwist/internal/consoleui/verifh/uix"
	"mltwist/internal/state"
	"mltwist/internal/state/memory"
	"mltwist/pkg/expr"
	"mltwist/pkg/model"
	"mltwist/verifh/elfgen"
	"mltwist/verifh/eng"
	"mltwist/verifh/ir"
	"mltwist/verifh/procx"
	"mltwist/verifh/prog"
)

// C24 — screen rendering fits the granted space.

type c24Case struct {
	Kind    string     `json:"kind"` // listing | regs | memory | composite | app
	Words   [][]uint32 `json:"segments,omitempty"`
	Cursor  int        `json:"cursor,omitempty"`
	N       int        `json:"n"`
	Regs    int        `json:"regs,omitempty"`
	IP      bool       `json:"ip,omitempty"`
	ValW    int        `json:"value_width,omitempty"`
	Runs    [][2]int   `json:"runs,omitempty"`     // memory: stored [begin,end) runs
	Kids    [][2]int   `json:"children,omitempty"` // composite: (min,max) of stub children
	Prog    string     `json:"program,omitempty"`
	History []uiLine   `json:"history,omitempty"`
}

// c24Wrote: whether the last judged render wrote at least one line (single-threaded per worker process).
var c24Wrote bool

type stubView struct{ min, max int }

func (s stubView) MinLines() int { return s.min }
func (s stubView) MaxLines() int { return s.max }
func (s stubView) Print(n int) error {
	for i := 0; i < n; i++ {
		fmt.Println("stub")
	}
	return nil
}

func segsOf(ws [][]uint32) []prog.Seg {
	var out []prog.Seg
	for i, w := range ws {
		out = append(out, prog.Seg{Base: 0x1000 + uint64(i)*0x1000, Words: w})
	}
	return out
}

// render prints v with n granted lines and judges the output.
func c24Judge(c c24Case, v view.View, n int, what string) *eng.Fail {
	c24Wrote = false
	var err error
	var p any
	var stack string
	out := uix.Capture(func() {
		p, stack = eng.Catch(func() { err = v.Print(n) })
	})
	if p != nil {
		return &eng.Fail{Sig: c.Kind + " render panic " + eng.PanicSite(stack), What: fmt.Sprintf("%s: Print(%d) panics: %v", what, n, p), Case: c}
	}
	if err != nil {
		if n >= v.MinLines() {
			// UI.Run stops the application on this error
			return &eng.Fail{Sig: c.Kind + " render fails", What: fmt.Sprintf("%s: Print(%d) with %d >= MinLines()=%d fails: %v", what, n, n, v.MinLines(), err), Case: c}
		}
		return nil
	}
	got := uix.LinesWritten(out)
	c24Wrote = got > 0
	if got > n {
		return &eng.Fail{Sig: c.Kind + " writes-more-than-granted", What: fmt.Sprintf("%s: granted %d lines, wrote %d", what, n, got), Case: c}
	}
	if mn, mx := v.MinLines(), v.MaxLines(); mn == mx && mn >= 0 && n == mn && got != mn && c.Kind != "app" && c.Kind != "composite" {
		return &eng.Fail{Sig: c.Kind + " fixed-height-mismatch", What: fmt.Sprintf("%s: declares a fixed height of %d lines but wrote %d", what, mn, got), Case: c}
	}
	return nil
}

func c24Run(c c24Case) *eng.Fail {
	switch c.Kind {
	case "listing":
		ins, err := prog.Instructions(segsOf(c.Words))
		if err != nil {
			return nil
		}
		code, err := prog.Code(0x1000, ins)
		if err != nil {
			return nil
		}
		v := lines.NewView(code)
		if err := v.Cursor.Set(c.Cursor); err != nil {
			return nil
		}
		if c.N < v.MinLines() && c.N != v.MaxLines() {
			return nil
		}
		return c24Judge(c, v, c.N, fmt.Sprintf("listing of %d lines, cursor %d", v.Lines.Len(), c.Cursor))
	case "regs":
		st := state.New()
		for i := 0; i < c.Regs; i++ {
			st.Regs.Store(expr.Key(fmt.Sprintf("x%d", i+1)), ir.ConstU(uint64(i)*0x11, expr.Width(c.ValW)), expr.Width(c.ValW))
		}
		if c.IP {
			st.Regs.Store(expr.IPKey, ir.ConstU(0x1000, 8), 8)
		}
		v := emulate.VerifRegView(st)
		f := c24Judge(c, v, v.MinLines(), fmt.Sprintf("register view of %d registers (ip=%v, %d-byte values)", c.Regs, c.IP, c.ValW))
		// two "key: 0xvalue" columns plus three separating spaces have to fit the view's 80
		// columns; when they cannot (register values wider than 8 bytes, which no front end
		// produces) the view's own "not enough space" error is an answer, not a failure
		if widest := len(fmt.Sprintf("x%d: 0x", c.Regs)) + 2*c.ValW; f != nil && f.Sig == "regs render fails" && 80-2*widest < 3 {
			return nil
		}
		return f
	case "memory":
		var mem memory.Memory
		if c.Runs != nil {
			sp := memory.NewSparse()
			for _, r := range c.Runs {
				for a := r[0]; a < r[1]; a++ {
					sp.Store(model.Addr(a), ir.ConstU(uint64(a)&0xff, 1), 1)
				}
			}
			mem = sp
		}
		m := memview.New(mem)
		v := memview.VerifView(m)
		rows := len(memview.VerifRows(m))
		if c.Cursor > 0 {
			if c.Cursor >= rows {
				return nil
			}
			// move the cursor with the real command
			for _, cmd := range m.Commands() {
				if cmd.Keys[0] == "goto" {
					if err := cmd.Action(nil, c.Cursor); err != nil {
						return nil
					}
				}
			}
		}
		return c24Judge(c, v, c.N, fmt.Sprintf("memory view of runs %v (%d rows), cursor %d", c.Runs, rows, c.Cursor))
	case "composite":
		var kids []view.View
		for _, k := range c.Kids {
			kids = append(kids, stubView{k[0], k[1]})
		}
		v := view.NewComposite(kids...)
		if c.N < v.MinLines() {
			return nil
		}
		return c24Judge(c, v, c.N, fmt.Sprintf("composite of children (min,max) %v", c.Kids))
	case "screen":
		// the rule of view.Print: a screen of c.N >= MinLines lines grants
		// MaxLines lines when that is non-negative and fits, else c.N
		var kids []view.View
		for _, k := range c.Kids {
			kids = append(kids, stubView{k[0], k[1]})
		}
		v := view.NewComposite(kids...)
		if c.N < v.MinLines() {
			return nil
		}
		n := v.MaxLines()
		if n < 0 || n > c.N {
			n = c.N
		}
		if n < v.MinLines() {
			return &eng.Fail{Sig: "screen grants-less-than-minimum", What: fmt.Sprintf("composite of children (min,max) %v on a screen of %d lines: MaxLines()=%d < MinLines()=%d, so view.Print grants less than the minimum and the UI stops", c.Kids, c.N, v.MaxLines(), v.MinLines()), Case: c}
		}
		return c24Judge(c, v, n, fmt.Sprintf("screen of %d lines, composite of children (min,max) %v", c.N, c.Kids))
	case "pty":
		return c24PTY(c)
	case "app":
		s, f := c22Replay(c22Case{Prog: c.Prog, History: c.History, Heights: nil})
		if f != nil || s == nil || s.Quit {
			return nil
		}
		r := s.Render(c.N)
		if r.Panic != nil {
			return &eng.Fail{Sig: "app render panic " + eng.PanicSite(r.Stack), What: fmt.Sprintf("%s screen at height %d panics: %v", s.ModeKind(), c.N, r.Panic), Case: c}
		}
		if r.Err != nil {
			return &eng.Fail{Sig: "app render fails " + s.ModeKind(), What: fmt.Sprintf("program %s: the %s screen at height %d (>= its declared minimum) is not rendered: %v", c.Prog, s.ModeKind(), c.N, r.Err), Case: c}
		}
		c24Wrote = uix.LinesWritten(r.Out) > 0
		if got := uix.LinesWritten(r.Out); got > c.N {
			return &eng.Fail{Sig: "app writes-more-than-screen " + s.ModeKind(), What: fmt.Sprintf("%s screen at height %d wrote %d lines", s.ModeKind(), c.N, got), Case: c}
		}
	}
	return nil
}

var c24Bin, c24BinDir string

// c24PTY runs the real binary on a generated ELF file under a pseudo-terminal of c.N rows
// (echo off), quits with 'q', and counts the lines of the one screen it painted: this goes
// through view.Print and the terminal-size system call, which the in-process cases bypass.
func c24PTY(c c24Case) *eng.Fail {
	if c24Bin == "" {
		dir, err := os.MkdirTemp("", "vc24")
		if err != nil {
			panic(err)
		}
		bin, err := procx.Build(dir)
		if err != nil {
			panic(err)
		}
		c24Bin, c24BinDir = bin, dir
	}
	var code []byte
	for _, ws := range c.Words {
		code = append(code, prog.Image(ws)...)
	}
	f := elfgen.File{Type: elfgen.ET_EXEC, Entry: 0x1000,
		Sections: []elfgen.Section{{Type: elfgen.SHT_PROGBITS, Flags: 6, Addr: 0x1000, Data: code, Size: uint64(len(code))}},
		Progs:    []elfgen.Prog{{Type: elfgen.PT_LOAD, Vaddr: 0x1000, Data: code, Memsz: uint64(len(code))}}}
	path := filepath.Join(c24BinDir, fmt.Sprintf("p%d-%d.elf", os.Getpid(), c24Seq.Add(1)))
	if err := os.WriteFile(path, f.Bytes(), 0o644); err != nil {
		panic(err)
	}
	defer os.Remove(path)
	res, err := procx.RunPTYOpt(c24Bin, []string{path}, c.N, 100, "q\n\n", 120*time.Second, true)
	if err != nil {
		return nil // no pseudo-terminal available here
	}
	what := fmt.Sprintf("mltwist on a code of %d instructions under a terminal of %d rows", len(code)/4, c.N)
	if cr := res.Crashed(); cr != "" {
		return &eng.Fail{Sig: "pty " + cr, What: fmt.Sprintf("%s: %s; output %.300q", what, cr, res.Stdout), Case: c}
	}
	const clear = "\033[H\033[2J"
	i := strings.Index(res.Stdout, clear)
	if i < 0 || res.Exit != 0 {
		return &eng.Fail{Sig: "pty screen not shown", What: fmt.Sprintf("%s: exit %d, output %.300q", what, res.Exit, res.Stdout), Case: c}
	}
	screen := res.Stdout[i+len(clear):]
	if j := strings.Index(screen, "leaving app"); j >= 0 {
		screen = screen[:j]
	}
	if strings.Contains(screen, clear) {
		return &eng.Fail{Sig: "pty screen painted twice", What: fmt.Sprintf("%s: %.300q", what, res.Stdout), Case: c}
	}
	c24Wrote = true
	if got := uix.LinesWritten(strings.ReplaceAll(screen, "\r", "")); got > c.N {
		return &eng.Fail{Sig: "pty writes-more-than-screen", What: fmt.Sprintf("%s: the screen takes %d lines: %q", what, got, screen), Case: c}
	}
	return nil
}

var c24Seq atomic.Int64

func init() {
	checks["C24"] = eng.Check{
		Procs:       8,
		Rule:        "listing view: codes of 1..8 (thorough 1..40) instructions in one block and 2- and 3-block codes (listings of 3..14 lines) x EVERY cursor position x every granted n from MinLines (and MaxLines when smaller) to Len+3; register view: every register count 0..5 (thorough 0..33) x with/without the instruction pointer x value widths {1,4,8,16}; memory view: nil memory and every union of <=2 runs with endpoints from {0,1,15,16,17,31,32,33,47,48,4096..} x every cursor row (thorough: the first 20) x n in 5..12 (thorough 5..40); generic composite: every combination of 2..3 stub children with min in 0..2 and max in {unbounded, min..min+2} x n from MinLines to MinLines+5; whole screens following view.Print (grant MaxLines when it fits, else the height) over composites of 2..3 stub children including children whose declared maximum is below their minimum, at heights MinLines..MinLines+6; application screens (disassembler, emulator after steps, memory view) of the 4 programs at every height 5..40 (thorough 5..90). A Print that returns an error for n >= MinLines counts as a failure (UI.Run stops on it). Plus the real binary under a pseudo-terminal (echo off) on generated ELF files with codes of 1,2,3,4,6,12 (thorough up to 40) instructions x every terminal height 1..16, 24, 50 (thorough 1..60): view.Print with the real terminal size must paint one screen of at most that many lines and 'q' must exit 0. Output captured and counted: never a panic, never more lines than granted, a view with MinLines == MaxLines writes exactly that many. Non-trivial = render that wrote at least one line.",
		Assumptions: []string{"a line = a newline written (plus one for trailing text without newline)", "the register view may refuse (with its own error) contents whose two columns cannot fit its 80 columns: values wider than 8 bytes with long keys", "the command prompt (declares 2 lines, prints one without newline) is only judged against the upper bound"},
		Run: func(r *eng.Run) {
			item := 0
			do := func(c c24Case) {
				item++
				if !r.Mine(item) {
					return
				}
				c24Wrote = false
				f := c24Run(c)
				r.Eval(1)
				if c24Wrote {
					r.Nontrivial(1)
				}
				if f != nil {
					r.Report(f)
					r.Outcome(f.Sig)
				}
			}
			// listings
			var codes [][][]uint32
			maxK, maxRegs, maxMemN, maxMemCur := 8, 5, 12, 9
			if !r.Quick() {
				maxK, maxRegs, maxMemN, maxMemCur = 40, 33, 40, 20
			}
			for k := 1; k <= maxK; k++ {
				var ws []uint32
				for i := 0; i < k; i++ {
					ws = append(ws, prog.Addi(uint32(i%31+1), 0, int64(i)))
				}
				codes = append(codes, [][]uint32{ws})
			}
			codes = append(codes,
				[][]uint32{{prog.Nop}, {prog.Nop}},
				[][]uint32{{prog.Nop, prog.Nop, prog.Nop}, {prog.Nop}, {prog.Nop, prog.Nop}},
				[][]uint32{{prog.Addi(1, 0, 1), prog.Beq(1, 0, 8), prog.Nop, prog.Nop, prog.Jal(0, -16)}})
			for _, ws := range codes {
				total := 0
				for _, w := range ws {
					total += len(w) + 2
				}
				total += 4
				for cur := 0; cur < total; cur++ {
					for n := 1; n <= total+3; n++ {
						do(c24Case{Kind: "listing", Words: ws, Cursor: cur, N: n})
					}
				}
			}
			// register views
			for regs := 0; regs <= maxRegs; regs++ {
				for _, ip := range []bool{false, true} {
					for _, w := range []int{1, 4, 8, 16} {
						do(c24Case{Kind: "regs", Regs: regs, IP: ip, ValW: w})
					}
				}
			}
			// memory views
			ends := []int{0, 1, 15, 16, 17, 31, 32, 33, 47, 48}
			var runs [][2]int
			for i, b := range ends {
				for _, e := range ends[i+1:] {
					runs = append(runs, [2]int{b, e})
				}
			}
			runs = append(runs, [2]int{4096, 4100}, [2]int{4111, 4113})
			var layouts [][][2]int
			layouts = append(layouts, nil, [][2]int{})
			for _, a := range runs {
				layouts = append(layouts, [][2]int{a})
			}
			for i, a := range runs {
				for _, b := range runs[i+1:] {
					if b[0] > a[1] {
						layouts = append(layouts, [][2]int{a, b})
					}
				}
			}
			for li, l := range layouts {
				if r.Quick() && li > 60 && li%7 != 0 {
					continue
				}
				for cur := 0; cur < maxMemCur; cur++ {
					for n := 5; n <= maxMemN; n++ {
						do(c24Case{Kind: "memory", Runs: l, Cursor: cur, N: n})
					}
				}
			}
			// generic composites
			var kinds [][2]int
			for mn := 0; mn <= 2; mn++ {
				kinds = append(kinds, [2]int{mn, -1})
				for mx := mn; mx <= mn+2; mx++ {
					kinds = append(kinds, [2]int{mn, mx})
				}
			}
			// whole screens of composites, including children that declare a
			// maximum below their minimum (a listing shorter than 5 lines does)
			skinds := append([][2]int{}, kinds...)
			for mn := 1; mn <= 5; mn += 2 {
				for mx := 0; mx < mn; mx++ {
					skinds = append(skinds, [2]int{mn, mx})
				}
			}
			for _, a := range skinds {
				for _, b := range skinds {
					base := a[0] + b[0] + 1
					for n := base; n <= base+6; n++ {
						do(c24Case{Kind: "screen", Kids: [][2]int{a, b}, N: n})
					}
					for _, c3 := range [][2]int{{2, 2}, {1, -1}, {3, 1}} {
						for n := base + c3[0] + 1; n <= base+c3[0]+7; n++ {
							do(c24Case{Kind: "screen", Kids: [][2]int{a, b, c3}, N: n})
						}
					}
				}
			}
			for _, a := range kinds {
				for _, b := range kinds {
					base := a[0] + b[0] + 1
					for n := base; n <= base+5; n++ {
						do(c24Case{Kind: "composite", Kids: [][2]int{a, b}, N: n})
					}
					for _, c3 := range kinds {
						if r.Quick() && c3[1] != -1 && c3[0] != 1 {
							continue
						}
						base3 := base + c3[0] + 1
						for n := base3; n <= base3+5; n++ {
							do(c24Case{Kind: "composite", Kids: [][2]int{a, b, c3}, N: n})
						}
					}
				}
			}
			// application screens
			hists := [][]uiLine{
				nil, {{Line: "g 5"}}, {{Line: "g 10"}},
				{{Line: "entry"}, {Line: "e"}},
				{{Line: "entry"}, {Line: "e"}, {Line: "s", Answers: []string{"7"}}, {Line: "s", Answers: []string{"0x2000"}}, {Line: "s"}},
				{{Line: "entry"}, {Line: "e"}, {Line: "s", Answers: []string{"7"}}, {Line: "s", Answers: []string{"0x2000"}}, {Line: "s"}, {Line: "s"}, {Line: "m memory"}},
				{{Line: "entry"}, {Line: "e"}, {Line: "m nokey"}},
			}
			for _, p := range uiProgs {
				for _, h := range hists {
					maxH := 40
					if !r.Quick() {
						maxH = 90
					}
					for n := 5; n <= maxH; n++ {
						do(c24Case{Kind: "app", Prog: p.Name, History: h, N: n})
					}
				}
			}
			// the real binary under a pseudo-terminal: codes of 1..n instructions x terminal heights
			ptyCodes := []int{1, 2, 3, 4, 6, 12}
			maxRows := 16
			if !r.Quick() {
				ptyCodes = []int{1, 2, 3, 4, 5, 6, 8, 12, 20, 40}
				maxRows = 60
			}
			for _, k := range ptyCodes {
				var ws []uint32
				for i := 0; i < k; i++ {
					ws = append(ws, prog.Addi(uint32(i%31+1), 0, int64(i)))
				}
				for rows := 1; rows <= maxRows; rows++ {
					do(c24Case{Kind: "pty", Words: [][]uint32{ws}, N: rows})
				}
				if r.Quick() {
					do(c24Case{Kind: "pty", Words: [][]uint32{ws}, N: 24})
					do(c24Case{Kind: "pty", Words: [][]uint32{ws}, N: 50})
				}
			}
			if c24BinDir != "" {
				os.RemoveAll(c24BinDir)
				c24Bin, c24BinDir = "", ""
			}
			if r.Mine(0) {
				r.Sample(c24Case{Kind: "regs", Regs: 2, IP: true, ValW: 8})
				r.Sample(c24Case{Kind: "listing", Words: codes[2], Cursor: 4, N: 5})
				r.Note("listing codes=%d memory layouts=%d composite child kinds=%d", len(codes), len(layouts), len(kinds))
			}
		},
		Replay: func(r *eng.Run, raw json.RawMessage) *eng.Fail {
			var c c24Case
			if err := json.Unmarshal(raw, &c); err != nil {
				panic(err)
			}
			return c24Run(c)
		},
	}
}
