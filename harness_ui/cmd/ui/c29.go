package main

import (
	"encoding/json"
	"fmt"
	"math"
	"os"
	"strings"
	"sync/atomic"
	"time"

	"mltwist/internal/consoleui"
	"mltwist/verifh/eng"
)

// C29 — help text wrapping keeps every character within the width.

type c29Case struct {
	Text   string `json:"text"`
	Indent int    `json:"indent"`
	Width  int    `json:"remaining_width"`
}

func c29Run(c c29Case) *eng.Fail {
	width := c.Indent*8 + c.Width
	var out string
	p, stack := eng.Catch(func() { out = consoleui.VerifFormat(c.Text, c.Indent, width) })
	if p != nil {
		return &eng.Fail{Sig: "format panic " + eng.PanicSite(stack), What: fmt.Sprintf("format(%q,%d,%d) panics: %v", c.Text, c.Indent, width, p), Case: c}
	}
	desc := fmt.Sprintf("format(%q, indent=%d, width=%d) = %q", c.Text, c.Indent, width, out)
	if out == "" {
		if strings.TrimSpace(c.Text) == "" {
			return nil
		}
		return &eng.Fail{Sig: "format loses-text", What: desc, Case: c}
	}
	if !strings.HasSuffix(out, "\n") {
		return &eng.Fail{Sig: "format no-final-newline", What: desc, Case: c}
	}
	lines := strings.Split(strings.TrimSuffix(out, "\n"), "\n")
	tabs := strings.Repeat("\t", c.Indent)
	// position in the input (over all characters) to track words
	pos := 0
	skip := func() {
		for pos < len(c.Text) && c.Text[pos] == ' ' {
			pos++
		}
	}
	for li, l := range lines {
		if !strings.HasPrefix(l, tabs) {
			return &eng.Fail{Sig: "format indentation", What: desc + fmt.Sprintf(": line %d lacks the indentation", li), Case: c}
		}
		body := l[len(tabs):]
		if strings.ContainsAny(body, "\t") {
			return &eng.Fail{Sig: "format indentation", What: desc + fmt.Sprintf(": line %d has extra tabs", li), Case: c}
		}
		if len(body) > c.Width {
			return &eng.Fail{Sig: "format line-too-long", What: desc + fmt.Sprintf(": line %d has %d characters, remaining width is %d", li, len(body), c.Width), Case: c}
		}
		startsMidWord := false
		for bi := 0; bi < len(body); bi++ {
			ch := body[bi]
			if ch == ' ' {
				continue
			}
			skip()
			if pos >= len(c.Text) || c.Text[pos] != ch {
				return &eng.Fail{Sig: "format characters", What: desc + ": non-space characters differ from the text", Case: c}
			}
			if bi == 0 || li > 0 && strings.TrimLeft(body[:bi], " ") == "" {
				// first non-space character of the line: is it inside a word begun on an earlier line?
				if li > 0 && pos > 0 && c.Text[pos-1] != ' ' {
					startsMidWord = true
				}
			}
			pos++
		}
		if startsMidWord {
			// the word containing c.Text[pos-1...] was split: find its extent
			// (locate the word around the first consumed char of this line)
			first := strings.TrimLeft(body, " ")
			_ = first
			// word boundaries around the split point: the split point is the input index of the line's first char
			sp := pos
			// walk back over this line's non-space chars
			cnt := 0
			for bi := 0; bi < len(body); bi++ { // bytes, not runes: format counts bytes
				if body[bi] != ' ' {
					cnt++
				}
			}
			// index of line's first char in input: count back cnt non-space chars
			j := sp
			for k := 0; k < cnt; {
				j--
				if c.Text[j] != ' ' {
					k++
				}
			}
			b, e := j, j
			for b > 0 && c.Text[b-1] != ' ' {
				b--
			}
			for e < len(c.Text) && c.Text[e] != ' ' {
				e++
			}
			if e-b <= c.Width {
				return &eng.Fail{Sig: "format splits-fitting-word", What: desc + fmt.Sprintf(": word %q (fits the width %d) is split", c.Text[b:e], c.Width), Case: c}
			}
		}
	}
	skip()
	if pos != len(c.Text) {
		return &eng.Fail{Sig: "format loses-text", What: desc + ": text is not completely contained", Case: c}
	}
	return nil
}

func init() {
	checks["C29"] = eng.Check{
		Rule:        "format(text, indent, width) for EVERY string over {a, b, space} of length <=10 (thorough 14) without leading space x remaining width 1..5 x indentation 0..2 (+ widths 6..9 on the strings of length <=8), and every string of <=5 runes over {a, space, é (2 bytes), € (3 bytes), à and Å (2 bytes ending in a0 / 85)} x widths 1..6, and 4 texts x indentation 0..2 x screen widths 2^31-1, 2^31, 2^32+5, 2^62+1, MaxInt-1, MaxInt: termination (watchdog), every line = indentation tabs + at most width characters, the non-space characters equal the text's in order, a word is split only if longer than the width. Non-trivial = text that needs more than one line.",
		Assumptions: []string{"single-line text without leading spaces and at least one character of room (the property's domain)"},
		Run: func(r *eng.Run) {
			maxLen := 10
			if !r.Quick() {
				maxLen = 14
			}
			// one "current case" slot per worker; when nothing progresses for 30 s every slot's
			// case is re-run under a 20 s limit, twice, and only a case that again does not
			// return is reported (format is a pure function, so re-running is safe)
			slots := make([]atomic.Value, 64)
			var tick atomic.Int64
			go func() {
				last, stale := int64(-1), 0
				for {
					time.Sleep(10 * time.Second)
					t := tick.Load()
					if t != last {
						last, stale = t, 0
						continue
					}
					if stale++; stale < 3 {
						continue
					}
					stale = 0
					for i := range slots {
						c, ok := slots[i].Load().(c29Case)
						if !ok {
							continue
						}
						hangs := func() bool { return !eng.Within(20*time.Second, func() { c29Run(c) }) }
						if hangs() && hangs() {
							b, _ := json.Marshal(map[string]any{"property": "C29", "signature": "format does-not-terminate", "case": c})
							os.MkdirAll(eng.VerifDir+"/replays/C29", 0o755)
							path := eng.VerifDir + "/replays/C29/format_does-not-terminate.json"
							os.WriteFile(path, b, 0o644)
							fmt.Printf("VIOLATION property=C29 replay=%s\n  format(%q, %d, %d) does not terminate\n", path, c.Text, c.Indent, c.Indent*8+c.Width)
							os.Exit(1)
						}
					}
					eng.Hung.Store(false)
				}
			}()
			alpha := []byte{'a', 'b', ' '}
			total := 1
			for i := 0; i < maxLen; i++ {
				total *= 3
			}
			var rec func(slot int, s []byte)
			rec = func(slot int, s []byte) {
				if len(s) > 0 {
					for ind := 0; ind <= 2; ind++ {
						maxW := 5
						if len(s) <= 8 {
							maxW = 9
						}
						for w := 1; w <= maxW; w++ {
							c := c29Case{Text: string(s), Indent: ind, Width: w}
							slots[slot].Store(c)
							tick.Add(1)
							f := c29Run(c)
							r.Eval(1)
							if len(s) > w {
								r.Nontrivial(1)
							}
							if f != nil {
								r.Report(f)
								r.Outcome(f.Sig)
							}
						}
					}
				}
				if len(s) < maxLen {
					for _, ch := range alpha {
						if len(s) == 0 && ch == ' ' {
							continue
						}
						rec(slot, append(s, ch))
					}
				}
			}
			// shard the first three characters over the cores
			var prefixes [][]byte
			for _, a := range alpha[:2] {
				for _, b := range alpha {
					for _, c := range alpha {
						prefixes = append(prefixes, []byte{a, b, c})
					}
				}
			}
			for _, s := range []string{"a", "b", "aa", "ab", "a ", "ba", "bb", "b "} {
				for ind := 0; ind <= 2; ind++ {
					for w := 1; w <= 9; w++ {
						if f := c29Run(c29Case{Text: s, Indent: ind, Width: w}); f != nil {
							r.Report(f)
						}
						r.Eval(1)
					}
				}
			}
			r.Par(len(prefixes), func(i int) { rec(i, append([]byte{}, prefixes[i]...)) })
			// multi-byte characters (2 and 3 bytes): every string of <=5 runes over {a, space, é, €}
			// (the property counts what format counts: bytes)
			// à and Å end in the bytes a0 and 85, which are white space when (mis)read as Latin-1
			runes := []string{"a", " ", "é", "€", "à", "Å"}
			var recU func(s string, n int)
			recU = func(s string, n int) {
				if s != "" {
					for ind := 0; ind <= 1; ind++ {
						for w := 1; w <= 6; w++ {
							c := c29Case{Text: s, Indent: ind, Width: w}
							slots[63].Store(c)
							tick.Add(1)
							f := c29Run(c)
							r.Eval(1)
							if f != nil {
								r.Report(f)
								r.Outcome(f.Sig)
							}
						}
					}
				}
				if n < 5 {
					for _, ru := range runes {
						if s == "" && ru == " " {
							continue
						}
						recU(s+ru, n+1)
					}
				}
			}
			recU("", 0)
			// widths at the far end of the legal range (a "never wrap" width): nothing may overflow
			for _, txt := range []string{"a", "ab  abba b", "aaaa aaaa aaaa aaaa aaaa", "é €a"} {
				for ind := 0; ind <= 2; ind++ {
					for _, w := range []int{1 << 31, 1<<31 - 1, 1<<32 + 5, 1<<62 + 1, math.MaxInt - 8*ind - 1, math.MaxInt - 8*ind} {
						c := c29Case{Text: txt, Indent: ind, Width: w}
						slots[63].Store(c)
						tick.Add(1)
						f := c29Run(c)
						r.Eval(1)
						if f != nil {
							r.Report(f)
							r.Outcome(f.Sig)
						}
					}
				}
			}
			r.Sample(c29Case{Text: "ab  abba b", Indent: 1, Width: 3})
			_ = total
		},
		Replay: func(r *eng.Run, raw json.RawMessage) *eng.Fail {
			var c c29Case
			if err := json.Unmarshal(raw, &c); err != nil {
				panic(err)
			}
			var f *eng.Fail
			if !eng.Within(20*time.Second, func() { f = c29Run(c) }) {
				return &eng.Fail{Sig: "format does-not-terminate", What: fmt.Sprintf("format(%q, %d, %d) does not return within 20 s", c.Text, c.Indent, c.Indent*8+c.Width), Case: c}
			}
			return f
		},
	}
}
