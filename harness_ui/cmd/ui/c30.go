package main

import (
	"encoding/json"
	"fmt"
	"math/big"
	"strings"

	"mltwist/internal/consoleui/emulate"
	"mltwist/internal/consoleui/internal/linereader"
	"mltwist/internal/consoleui/internal/memview"
	"mltwist/pkg/expr"
	"mltwist/pkg/model"
	"mltwist/verifh/eng"
	"mltwist/verifh/ir"
)

// C30 — numeric user input is parsed exactly.

type c30Case struct {
	Fn string `json:"fn"` // addr | value
	S  string `json:"input"`
	W  int    `json:"w,omitempty"`
}

func digitsOK(s string, base int) bool {
	if s == "" {
		return false
	}
	for _, c := range s {
		var d int
		switch {
		case c >= '0' && c <= '9':
			d = int(c - '0')
		case c >= 'a' && c <= 'f':
			d = int(c-'a') + 10
		case c >= 'A' && c <= 'F':
			d = int(c-'A') + 10
		default:
			return false
		}
		if d >= base {
			return false
		}
	}
	return true
}

// literal parses an unsigned integer literal. kind: "ok", "bad", "zero" (0, 00..: the text does not decide), allowO: 0o prefix allowed.
func literal(s string, allowO bool) (*big.Int, string) {
	base, body := 10, s
	switch {
	case len(s) >= 2 && (s[:2] == "0x" || s[:2] == "0X"):
		base, body = 16, s[2:]
	case len(s) >= 2 && (s[:2] == "0b" || s[:2] == "0B"):
		base, body = 2, s[2:]
	case allowO && len(s) >= 2 && (s[:2] == "0o" || s[:2] == "0O"):
		base, body = 8, s[2:]
	case len(s) >= 2 && s[0] == '0':
		base, body = 8, s[1:]
	}
	if !digitsOK(body, base) {
		return nil, "bad"
	}
	v, _ := new(big.Int).SetString(body, base)
	if strings.Trim(s, "0") == "" {
		return v, "zero"
	}
	return v, "ok"
}

func c30Run(c c30Case) *eng.Fail {
	switch c.Fn {
	case "addr":
		var got model.Addr
		var err error
		p, stack := eng.Catch(func() { got, err = memview.VerifParseAddr(c.S) })
		if p != nil {
			return &eng.Fail{Sig: "parseAddr panic " + eng.PanicSite(stack), What: fmt.Sprintf("address argument %q crashes: %v", c.S, p), Case: c}
		}
		v, kind := literal(c.S, false)
		if strings.HasPrefix(c.S, "+") {
			return nil // the text does not decide about a plus sign
		}
		if kind == "ok" && v.BitLen() > 64 {
			kind = "bad"
		}
		switch kind {
		case "zero":
			if err == nil && got != 0 {
				return &eng.Fail{Sig: "parseAddr value", What: fmt.Sprintf("address %q parsed as %#x", c.S, got), Case: c}
			}
		case "ok":
			if err != nil {
				return &eng.Fail{Sig: "parseAddr rejects-valid " + baseClass(c.S), What: fmt.Sprintf("address %q (= %s) rejected: %v", c.S, v, err), Case: c}
			}
			if uint64(got) != v.Uint64() {
				return &eng.Fail{Sig: "parseAddr value " + baseClass(c.S), What: fmt.Sprintf("address %q parsed as %#x, denotes %#x", c.S, got, v), Case: c}
			}
		case "bad":
			if err == nil {
				return &eng.Fail{Sig: "parseAddr accepts-invalid", What: fmt.Sprintf("address %q accepted as %#x", c.S, got), Case: c}
			}
		}
	case "value":
		linereader.VerifSetInput(strings.NewReader(c.S + "\n"))
		var got expr.Const
		var err error
		p, stack := eng.Catch(func() { got, err = emulate.VerifReadValue(expr.Width(c.W)) })
		if p != nil {
			return &eng.Fail{Sig: "readValue panic " + eng.PanicSite(stack), What: fmt.Sprintf("typed value %q (w=%d) crashes: %v", c.S, c.W, p), Case: c}
		}
		body, neg := c.S, false
		if strings.HasPrefix(body, "-") {
			body, neg = body[1:], true
		} else if strings.HasPrefix(body, "+") {
			return nil // not decided by the text
		}
		v, kind := literal(body, true)
		if strings.Contains(c.S, "_") || c.S == "" {
			kind = "bad"
		}
		if kind == "bad" {
			if err == nil {
				return &eng.Fail{Sig: "readValue accepts-invalid", What: fmt.Sprintf("typed value %q (w=%d) accepted as %s", c.S, c.W, ir.Show(got)), Case: c}
			}
			return nil
		}
		if err != nil {
			return &eng.Fail{Sig: "readValue rejects-valid " + baseClass(body), What: fmt.Sprintf("typed value %q (w=%d) rejected: %v", c.S, c.W, err), Case: c}
		}
		if neg {
			v = new(big.Int).Neg(v)
		}
		exp := new(big.Int).Mod(v, ir.Mod(expr.Width(c.W)))
		if got.Width() != expr.Width(c.W) || ir.ConstVal(got).Cmp(exp) != 0 {
			return &eng.Fail{Sig: "readValue value " + baseClass(body), What: fmt.Sprintf("typed value %q (w=%d) became %s, expected %x", c.S, c.W, ir.Show(got), exp), Case: c}
		}
	}
	return nil
}

func baseClass(s string) string {
	switch {
	case len(s) >= 2 && (s[1] == 'x' || s[1] == 'X'):
		return "hex"
	case len(s) >= 2 && (s[1] == 'b' || s[1] == 'B'):
		return "binary"
	case len(s) >= 2 && (s[1] == 'o' || s[1] == 'O'):
		return "octal-0o"
	case len(s) >= 2 && s[0] == '0':
		return "octal"
	}
	return "decimal"
}

func init() {
	checks["C30"] = eng.Check{
		Rule:        "memory-view address argument: EVERY string of length 1..4 over {0,1,7,9,a,f,g,x,X,b,B,-,+,_} (thorough: length 1..6 over the same characters plus o and O) plus boundary literals around 2^64 in every base and lines of 4000..60000 characters (zero-padded numbers in every base, long decimals, malformed tails), against an independent integer-literal parser (decimal, 0x/0X, 0b/0B, 0-prefixed octal; fits 64 bits); emulator prompt value: the same strings (plus 'o' forms, empty line) x widths {1,2,4,8} (the boundary literals and all strings of length <=2 also at widths 16,31,32,33,40,64,128,255) typed through the real line reader: typed integer modulo 2^(8w) as a w-byte constant, errors for empty input, underscores, malformed numbers; crashes are violations. Non-trivial = input that denotes a number.",
		Assumptions: []string{"'0', '00..' (zero in a 0-prefixed form) may be accepted as 0 or rejected, and a leading '+' may be accepted or rejected: the property text does not decide these"},
		Run: func(r *eng.Run) {
			alpha := []byte("0179afgxXbB-+_")
			maxLen := 4
			if !r.Quick() {
				alpha = []byte("0179afgxXbBoO-+_")
				maxLen = 6
			}
			var strs []string
			process := func(s string) {}
			var rec func(s []byte)
			rec = func(s []byte) {
				if len(s) > 0 {
					if len(s) <= 4 {
						strs = append(strs, string(s))
					} else {
						process(string(s)) // longer strings are streamed
					}
				}
				if len(s) < maxLen {
					for _, ch := range alpha {
						rec(append(s, ch))
					}
				}
			}
			extra := []string{"18446744073709551615", "18446744073709551616", "0xffffffffffffffff", "0x10000000000000000", "0XFFFFFFFFFFFFFFFF",
				"01777777777777777777777", "02000000000000000000000", "0b" + strings.Repeat("1", 64), "0B" + strings.Repeat("1", 65), "0b101", "0B101", "0b0", "017", "0x2000", "0X2000",
				"8", "08", "0x", "0b", "x", "0", "00", "000", "-0", "-1", "-0x80", "-0b1", "-017", "0o17", "0O17", "0o8", "-0o7", " 5", "5 ", "1e3", "0x1p3", "١٢", ""}
			// very long lines (around the 4096-byte buffer of a buffered reader, and up to 60000
			// characters): zero-padded numbers in every base, a long decimal, a malformed tail
			for _, n := range []int{4000, 4093, 4094, 4095, 4096, 4097, 5000, 8191, 8192, 8193, 60000} {
				z := strings.Repeat("0", n)
				extra = append(extra, "0x"+z+"1f", "0"+z+"17", "0b"+z+"101", "-0x"+z+"2", "1"+z, strings.Repeat("9", n), z+"_1", "0x"+z+"g", "7"+z+"_")
			}
			r.Note("alphabet=%q max length=%d", alpha, maxLen)
			process = func(s string) {
				if s != "" {
					f := c30Run(c30Case{Fn: "addr", S: s})
					r.Eval(1)
					if _, k := literal(s, false); k == "ok" {
						r.Nontrivial(1)
					}
					if f != nil {
						r.Report(f)
						r.Outcome(f.Sig)
					}
				}
				for _, w := range []int{1, 2, 4, 8} {
					if strings.ContainsAny(s, "\n") {
						continue
					}
					f := c30Run(c30Case{Fn: "value", S: s, W: w})
					r.Eval(1)
					if f != nil {
						r.Report(f)
						r.Outcome(f.Sig)
					}
				}
			}
			rec(nil)
			strs = append(strs, extra...)
			for _, s := range strs {
				process(s)
			}
			// far end of the width range (8*w does not fit the 8-bit width type from w = 32 on):
			// the boundary literals and every string of length <= 2 at widths 16..255
			for _, s := range strs {
				if len(s) > 2 && !strings.ContainsAny(s, "\n") {
					found := false
					for _, e := range extra {
						found = found || e == s
					}
					if !found {
						continue
					}
				}
				if strings.ContainsAny(s, "\n") {
					continue
				}
				for _, w := range []int{16, 31, 32, 33, 40, 64, 128, 255} {
					f := c30Run(c30Case{Fn: "value", S: s, W: w})
					r.Eval(1)
					if f != nil {
						r.Report(f)
						r.Outcome(f.Sig)
					}
				}
			}
			// a few 'o' strings systematically
			for _, s := range []string{"0o", "0o0", "0o7", "0o17", "0o8", "-0o17", "0O7", "0oa"} {
				for _, w := range []int{1, 8} {
					r.Report(c30Run(c30Case{Fn: "value", S: s, W: w}))
					r.Eval(1)
				}
			}
			r.Sample(c30Case{Fn: "addr", S: "0b101"})
			r.Sample(c30Case{Fn: "value", S: "-0x80", W: 2})
		},
		Replay: func(r *eng.Run, raw json.RawMessage) *eng.Fail {
			var c c30Case
			if err := json.Unmarshal(raw, &c); err != nil {
				panic(err)
			}
			return c30Run(c)
		},
	}
}
