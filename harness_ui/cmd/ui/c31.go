package main

import (
	"encoding/json"
	"fmt"
	"regexp"
	"strings"

	"mltwist/internal/consoleui/verifh/uix"
	"mltwist/pkg/model"
	"mltwist/verifh/eng"
)

// C31 — navigation commands land on the right line.

type c31Case struct {
	Prog    string   `json:"program"`
	History []uiLine `json:"history"`
}

// c31Lenient is set by c31Expect when the line may also be refused (error shown, cursor unchanged).
var c31Lenient bool

// c31Expect computes the expected cursor after line from (cursor, listing).
// ok=false: the command must fail / leave the cursor unchanged.
func c31Expect(s *uix.Session, line string, cur int, listing []string) (int, bool, bool) {
	f := strings.Fields(line)
	n := len(listing)
	num := func(i int) (int, bool) {
		if len(f) != 2 {
			return 0, false
		}
		var v int
		if padded := strings.TrimLeft(f[i], "0"); len(f[i]) > 1 && f[i][0] == '0' && strings.Trim(f[i], "0123456789") == "" {
			// a decimal number written with leading zeros: it is the decimal number (a command may
			// also refuse the notation with an error; c31Lenient tells the caller)
			if padded == "" {
				padded = "0"
			}
			fmt.Sscanf(padded, "%d", &v)
			c31Lenient = true
			return v, true
		}
		if _, err := fmt.Sscanf(f[i], "%d", &v); err != nil || v < 0 || fmt.Sprint(v) != f[i] {
			return 0, false
		}
		return v, true
	}
	c31Lenient = false
	switch f[0] {
	case "d", "down":
		v, ok := num(1)
		if !ok || cur+v >= n || cur+v < cur {
			return cur, false, true
		}
		return cur + v, true, true
	case "u", "up":
		v, ok := num(1)
		if !ok || cur-v < 0 {
			return cur, false, true
		}
		return cur - v, true, true
	case "g", "goto":
		v, ok := num(1)
		if !ok || v >= n {
			return cur, false, true
		}
		return v, true, true
	case "entry", "entrypoint":
		if len(f) != 1 {
			return cur, false, true
		}
		// header line of the entry's block + 1 + current index of the entry instruction
		e := s.Code.Entrypoint()
		line := 0
		for bi, b := range s.Code.Blocks() {
			if bi > 0 {
				line++
			}
			for _, in := range b.Instructions() {
				if in.Begin() == model.Addr(e) {
					return line + 1 + in.Idx(), true, true
				}
			}
			line += 1 + b.Num()
		}
		return cur, false, true
	case "f", "find", "/":
		if len(f) < 2 || strings.Contains(line, "  ") || strings.HasPrefix(line, " ") || strings.HasSuffix(line, " ") {
			return 0, false, false // not judged
		}
		// the pattern is everything after the command word (words separated by
		// single spaces); matching is decided by the standard library's POSIX
		// regex engine, plain substring search for patterns without metacharacters
		pat := strings.Join(f[1:], " ")
		var match func(l string) bool
		if !strings.ContainsAny(pat, `\.+*?()|[]{}^$`) {
			match = func(l string) bool { return strings.Contains(l, pat) }
		} else {
			re, err := regexp.CompilePOSIX(pat)
			if err != nil {
				return cur, false, true
			}
			match = re.MatchString
		}
		for k := 1; k < n; k++ {
			i := (cur + k) % n
			if match(listing[i]) {
				return i, true, true
			}
		}
		return cur, false, true
	}
	return 0, false, false
}

func c31Replay(c c31Case) (*uix.Session, *eng.Fail) {
	p := progByName(c.Prog)
	s, err := newSession(p)
	if err != nil {
		return nil, nil
	}
	for _, l := range c.History {
		v := s.ListView()
		if v == nil {
			return s, nil
		}
		cur := v.Cursor.Value()
		listing := listingOf(v)
		exp, ok, judged := c31Expect(s, l.Line, cur, listing)
		res := s.Command(l.Line, l.Answers...)
		cmd := strings.Fields(l.Line)[0]
		if res.Panic != nil {
			return s, &eng.Fail{Sig: "navigation " + cmd + " panic " + eng.PanicSite(res.Stack), What: fmt.Sprintf("line %q with cursor %d crashes: %v", l.Line, cur, res.Panic), Case: c}
		}
		if !judged {
			continue
		}
		got := s.ListView().Cursor.Value()
		if c31Lenient && got == cur && (strings.Contains(res.Out, "error:") || strings.Contains(res.Out, "No line matching")) {
			continue // refused with an error, cursor unchanged: allowed for this notation
		}
		if got != exp {
			cls := "lands-on-wrong-line"
			if !ok {
				cls = "failing-command-moves-cursor"
			}
			return s, &eng.Fail{Sig: "navigation " + cmd + " " + cls, What: fmt.Sprintf("program %s, history %v: %q with cursor %d of %d lines: cursor is %d, expected %d", c.Prog, c.History, l.Line, cur, len(listing), got, exp), Case: c}
		}
		answered := strings.Contains(res.Out, "error:") || strings.Contains(res.Out, "No line matching")
		if !ok && !answered {
			return s, &eng.Fail{Sig: "navigation " + cmd + " no-error-reported", What: fmt.Sprintf("%q with cursor %d cannot be performed but no error was shown", l.Line, cur), Case: c}
		}
		if ok && strings.Contains(res.Out, "error:") {
			return s, &eng.Fail{Sig: "navigation " + cmd + " spurious-error", What: fmt.Sprintf("%q with cursor %d was performed but reported %q", l.Line, cur, res.Out), Case: c}
		}
	}
	return s, nil
}

func init() {
	checks["C31"] = eng.Check{
		Hist:        true,
		Rule:        "explicit-state BFS to closure over (code order, cursor) on the 3-block, the loop-with-gap, the one-instruction and the 2-1-2 programs (thorough also: a 4-block program and a 5-block program in two segments) from 4 roots (initial, after an instruction move, after a block move, after both); menu in every state: down/up N and goto N for N in {0,1,2,3,Len-2,Len-1,Len,Len+1,2^31} and for decimal numbers written with leading zeros (010, 007, 08, 0012: the decimal value, or refused), entry, find P for 28 patterns P (single words, several words, POSIX regex syntax in the first, a later or every word, alternations, anchors, invalid regexes in the first or a later word, patterns matching nothing); model cursor computed independently (entry = header line of the entry instruction's block + 1 + its current index; find = first matching line after the cursor, cyclically, excluding the cursor line); a command that cannot be performed must show an error and leave the cursor unchanged. Searches while marks are shown: after bounds of EVERY line and after moves, from EVERY cursor position, 7 patterns that match mark characters or any single character (a search reads the text of a line, not the mark column). The long walk on one session interleaves the menu with moves and enters rejected and accepted patterns twice in a row. Non-trivial = command that moves the cursor.",
		Assumptions: []string{"the expected match set of a find pattern is computed with the standard library's POSIX regex engine (substring search for patterns without metacharacters)", "find lines with leading, trailing or doubled spaces are not judged"},
		Run: func(r *eng.Run) {
			for _, pn := range deepNames(r, []string{"three-blocks", "loop-with-gap", "one-instruction", "sym-blocks", "synthetic-long"}) {
				p := progByName(pn)
				s0, err := newSession(p)
				if err != nil {
					continue
				}
				n := s0.ListView().Lines.Len()
				var menu []string
				for _, v := range []int{0, 1, 2, 3, n - 2, n - 1, n, n + 1, 1 << 31} {
					if v < 0 {
						continue
					}
					menu = append(menu, fmt.Sprintf("d %d", v), fmt.Sprintf("u %d", v), fmt.Sprintf("g %d", v))
				}
				menu = append(menu, "entry", "g 010", "g 007", "g 08", "d 010", "u 010", "d 03", "g 0012", "g 00", "f addi", "f Block", "f sw", "f jal", "f ecall", "f zzz", "f ^$", "f x3", "f 0x1", "f nop",
					// several words, and regex syntax in the first / a later / every word
					"f addi x1", "f x1, x0", "f Block 2", "f addi x[12]", "f x[0-9], x0", "f a.di x1", "f ^ +sw", "f jal|sw", "f (addi|jal) x",
					"f addi x9|zzz", "f 13 0[0-9] ", "f \\| 13", "f [", "f addi (", "f x1 x[", "f zzz q*", "f k+ addi")
				roots := [][]uiLine{nil, {{Line: "m 1 2"}}, {{Line: "m 0 5"}}, {{Line: "m 0 5"}, {Line: "m 6 7"}}, {{Line: "m 3 1"}}}
				seen := map[string]bool{}
				var queue [][]uiLine
				for _, rt := range roots {
					s, f := c31Replay(c31Case{Prog: pn, History: rt})
					if f != nil {
						r.Report(f)
						continue
					}
					k := s.StateKey()
					if !seen[k] {
						seen[k] = true
						queue = append(queue, rt)
						r.State(1)
					}
				}
				for len(queue) > 0 {
					h := queue[0]
					queue = queue[1:]
					parentKey := ""
					if ps, _ := c31Replay(c31Case{Prog: pn, History: h}); ps != nil && ps.ListView() != nil {
						parentKey = fmt.Sprintf("%s@%d", ps.CodeKey(), ps.ListView().Cursor.Value())
					}
					for _, m := range menu {
						hh := append(append([]uiLine{}, h...), uiLine{Line: m})
						s, f := c31Replay(c31Case{Prog: pn, History: hh})
						r.Eval(1)
						r.Trans(1)
						r.Trace(1)
						if f != nil {
							r.Report(f)
							r.Outcome(f.Sig)
							continue
						}
						// state key without marks: (code, cursor)
						k := fmt.Sprintf("%s@%d", s.CodeKey(), s.ListView().Cursor.Value())
						if k == parentKey {
							// nothing visible changed (typically a refused command): the same command again,
							// and then an accepted search, show what the first attempt left behind
							for _, tailCmd := range [][]uiLine{{{Line: m}}, {{Line: m}, {Line: "f addi"}}} {
								_, f3 := c31Replay(c31Case{Prog: pn, History: append(append([]uiLine{}, hh...), tailCmd...)})
								r.Eval(1)
								r.Trans(len(tailCmd))
								if f3 != nil {
									r.Report(f3)
									r.Outcome(f3.Sig)
								}
							}
						}
						if !seen[k] {
							seen[k] = true
							queue = append(queue, hh)
							r.State(1)
							r.Nontrivial(1)
						}
					}
				}
			}
			// searches while marks are shown: after 'bounds' of every line (and after moves), from every
			// cursor position, patterns that match mark characters or any single character — a search
			// looks at the text of a line, not at the mark column
			for _, pn := range deepNames(r, []string{"three-blocks", "loop-with-gap", "sym-blocks"}) {
				p := progByName(pn)
				s0, err := newSession(p)
				if err != nil {
					continue
				}
				n := s0.ListView().Lines.Len()
				var setups [][]uiLine
				for k := 0; k < n; k++ {
					setups = append(setups, []uiLine{{Line: fmt.Sprintf("b %d", k)}})
				}
				setups = append(setups, []uiLine{{Line: "m 1 2"}}, []uiLine{{Line: "m 0 5"}}, []uiLine{{Line: "m 1 2"}, {Line: "b 2"}})
				item := 0
				for _, su := range setups {
					for c := 0; c < n; c++ {
						for _, pat := range []string{`f \^`, "f [<>!]", "f ^.$", "f vvv", "f ^...$", "f .", "f [^ ]"} {
							item++
							if !r.Mine(item) {
								continue
							}
							h := append(append([]uiLine{}, su...), uiLine{Line: fmt.Sprintf("g %d", c)}, uiLine{Line: pat})
							_, f := c31Replay(c31Case{Prog: pn, History: h})
							r.Eval(1)
							r.Trans(len(h))
							r.Trace(1)
							if f != nil {
								r.Report(f)
								r.Outcome(f.Sig)
							}
						}
					}
				}
			}
			// long walk on one session per program: the whole menu interleaved with moves, three rounds
			for _, pn := range deepNames(r, []string{"three-blocks", "loop-with-gap", "sym-blocks"}) {
				p := progByName(pn)
				s0, err := newSession(p)
				if err != nil {
					continue
				}
				n := s0.ListView().Lines.Len()
				var hist []uiLine
				moves := []string{"m 1 2", "m 0 5", "m 2 1", fmt.Sprintf("m %d 0", n-3), "m 5 0", "m 0 3"}
				for round := 0; round < 3; round++ {
					for i, v := range []int{0, 1, 2, 3, n - 2, n - 1, n, n + 1} {
						hist = append(hist, uiLine{Line: fmt.Sprintf("d %d", v)}, uiLine{Line: "f addi"}, uiLine{Line: fmt.Sprintf("g %d", (v+round)%(n+2))},
							uiLine{Line: "f ^$"}, uiLine{Line: fmt.Sprintf("u %d", v)}, uiLine{Line: "entry"}, uiLine{Line: "f Block"}, uiLine{Line: moves[(i+round)%len(moves)]}, uiLine{Line: "f jal"},
							// rejected patterns, each entered again (at once and after other commands), between accepted ones
							uiLine{Line: "f addi ("}, uiLine{Line: "f addi ("}, uiLine{Line: fmt.Sprintf("g %d", v%n)}, uiLine{Line: "f ["}, uiLine{Line: "f addi"}, uiLine{Line: "f ["},
							uiLine{Line: "f zzz"}, uiLine{Line: "f zzz"}, uiLine{Line: "f jal"}, uiLine{Line: "f jal"})
					}
				}
				_, f := c31Replay(c31Case{Prog: pn, History: hist})
				r.Eval(1)
				r.Trans(len(hist))
				if f != nil {
					r.Report(f)
					r.Outcome(f.Sig)
				}
			}
			r.Sample(c31Case{Prog: "three-blocks", History: []uiLine{{Line: "m 0 5"}, {Line: "entry"}, {Line: "f ^$"}}})
		},
		Replay: func(r *eng.Run, raw json.RawMessage) *eng.Fail {
			var c c31Case
			if err := json.Unmarshal(raw, &c); err != nil {
				panic(err)
			}
			_, f := c31Replay(c)
			return f
		},
	}
}
