package main

import (
	"encoding/json"
	"fmt"
	"sort"
	"strings"

	"mltwist/internal/consoleui"
	"mltwist/internal/consoleui/internal/memview"
	"mltwist/internal/consoleui/verifh/uix"
	"mltwist/internal/state/memory"
	"mltwist/pkg/expr"
	"mltwist/pkg/model"
	"mltwist/verifh/eng"
	"mltwist/verifh/ir"
)

// C32 — the memory view shows exactly the stored bytes.

type c32Case struct {
	Kind  string   `json:"memory"` // sparse | overlay
	Base  [][2]int `json:"base_runs,omitempty"`
	Runs  [][2]int `json:"runs"`
	Over  [][2]int `json:"overwrites,omitempty"`
	Shift uint64   `json:"shift,omitempty"`
	// Half: two more bytes are stored half the address space (2^63) above the runs
	Half bool `json:"half,omitempty"`
}

type bblock struct {
	begin model.Addr
	bytes []byte
}

func (b bblock) Begin() model.Addr { return b.begin }
func (b bblock) Bytes() []byte     { return b.bytes }

func c32Build(c c32Case) (memory.Memory, map[uint64]byte) {
	mdl := map[uint64]byte{}
	sp := memory.NewSparse()
	var mem memory.Memory = sp
	if c.Kind == "overlay" {
		var blocks []memory.ByteBlock
		for _, r := range c.Base {
			bs := make([]byte, r[1]-r[0])
			for i := range bs {
				bs[i] = byte(0xb0 + (r[0]+i)%16)
				mdl[c.Shift+uint64(r[0]+i)] = bs[i]
			}
			blocks = append(blocks, bblock{model.Addr(c.Shift + uint64(r[0])), bs})
		}
		bm, err := memory.NewBytes(blocks)
		if err != nil {
			return nil, nil
		}
		mem = memory.NewOverlay(bm, sp)
	}
	store := func(r [2]int, tag byte) {
		// written as 1..4-byte stores so that loads cross store boundaries
		for a := r[0]; a < r[1]; {
			w := 4
			if r[1]-a < w {
				w = r[1] - a
			}
			var v uint64
			for i := 0; i < w; i++ {
				b := tag + byte((a+i)%13)
				v |= uint64(b) << (8 * uint(i))
				mdl[c.Shift+uint64(a+i)] = b
			}
			mem.Store(model.Addr(c.Shift+uint64(a)), ir.ConstU(v, 8).WithWidth(8), 0+wW(w))
			a += w
		}
	}
	for _, r := range c.Runs {
		store(r, 0x20)
	}
	for _, r := range c.Over {
		store(r, 0x90)
	}
	if c.Half {
		a := c.Shift + 1<<63 + 0x25
		mem.Store(model.Addr(a), ir.ConstU(0x7172, 2), 2)
		mdl[a], mdl[a+1] = 0x72, 0x71
	}
	return mem, mdl
}

type c32Row struct {
	ellipsis bool
	addr     uint64
	bytes    []string
	marked   bool // the row carries the cursor marker '>'
}

func c32Parse(out string) ([]c32Row, string) {
	var rows []c32Row
	for _, l := range strings.Split(strings.TrimSuffix(out, "\n"), "\n") {
		parts := strings.Split(l, " | ")
		marked := strings.HasPrefix(l, ">")
		if len(parts) == 2 && strings.TrimSpace(parts[1]) == "..." {
			rows = append(rows, c32Row{ellipsis: true, marked: marked})
			continue
		}
		if len(parts) != 3 {
			return nil, fmt.Sprintf("unparsable row %q", l)
		}
		var a, e uint64
		if _, err := fmt.Sscanf(parts[1], "0x%x - 0x%x", &a, &e); err != nil {
			return nil, fmt.Sprintf("unparsable address column %q", parts[1])
		}
		toks := strings.Fields(parts[2])
		if len(toks) != 16 {
			return nil, fmt.Sprintf("row %q shows %d byte cells", l, len(toks))
		}
		rows = append(rows, c32Row{addr: a, bytes: toks, marked: marked})
	}
	return rows, ""
}

func c32Run(c c32Case) *eng.Fail {
	mem, mdl := c32Build(c)
	if mem == nil {
		return nil
	}
	var m consoleui.Mode
	p, stack := eng.Catch(func() { m = memview.New(mem) })
	if p != nil {
		return &eng.Fail{Sig: "memview construction panic " + eng.PanicSite(stack), What: fmt.Sprint(p), Case: c}
	}
	v := memview.VerifView(m)
	var out string
	var perr error
	out = uix.Capture(func() { p, stack = eng.Catch(func() { perr = v.Print(200) }) })
	if p != nil {
		return &eng.Fail{Sig: "memview render panic " + eng.PanicSite(stack), What: fmt.Sprintf("rendering panics: %v", p), Case: c}
	}
	if perr != nil {
		return &eng.Fail{Sig: "memview render error", What: perr.Error(), Case: c}
	}
	if len(mdl) == 0 {
		return nil
	}
	rows, bad := c32Parse(out)
	if bad != "" {
		return &eng.Fail{Sig: "memview row format", What: bad, Case: c}
	}
	// expected windows
	wins := map[uint64]bool{}
	for a := range mdl {
		wins[a&^15] = true
	}
	var wl []uint64
	for w := range wins {
		wl = append(wl, w)
	}
	sort.Slice(wl, func(i, j int) bool { return wl[i] < wl[j] })
	// strip leading / trailing ellipsis rows (unconstrained)
	i0, i1 := 0, len(rows)
	for i0 < i1 && rows[i0].ellipsis {
		i0++
	}
	for i1 > i0 && rows[i1-1].ellipsis {
		i1--
	}
	if i0 > 1 || len(rows)-i1 > 1 {
		return &eng.Fail{Sig: "memview repeated-ellipsis", What: "more than one leading/trailing ellipsis row", Case: c}
	}
	body := rows[i0:i1]
	wi := 0
	prevData := false
	var prevAddr uint64
	rowOfWindow := map[uint64]int{}
	for ri, r := range body {
		if r.ellipsis {
			if !prevData {
				return &eng.Fail{Sig: "memview repeated-ellipsis", What: "two ellipsis rows in a row", Case: c}
			}
			prevData = false
			continue
		}
		if wi >= len(wl) || r.addr != wl[wi] {
			exp := "none"
			if wi < len(wl) {
				exp = fmt.Sprintf("%#x", wl[wi])
			}
			return &eng.Fail{Sig: "memview rows", What: fmt.Sprintf("row %d shows window %#x, expected window %s (windows touching stored memory: %x)", ri, r.addr, exp, wl), Case: c}
		}
		if wi > 0 {
			consecutive := prevAddr+16 == r.addr
			if consecutive && !prevData {
				return &eng.Fail{Sig: "memview ellipsis-between-consecutive", What: fmt.Sprintf("ellipsis between consecutive rows %#x and %#x", prevAddr, r.addr), Case: c}
			}
			if !consecutive && prevData {
				return &eng.Fail{Sig: "memview missing-ellipsis", What: fmt.Sprintf("no ellipsis between non-consecutive rows %#x and %#x", prevAddr, r.addr), Case: c}
			}
		}
		for k := 0; k < 16; k++ {
			b, ok := mdl[r.addr+uint64(k)]
			exp := ".."
			if ok {
				exp = fmt.Sprintf("%02X", b)
			}
			if strings.ToUpper(r.bytes[k]) != exp {
				cls := "wrong-byte"
				if !ok {
					cls = "absent-byte-shown"
				} else if r.bytes[k] == ".." {
					cls = "stored-byte-hidden"
				}
				return &eng.Fail{Sig: "memview " + cls, What: fmt.Sprintf("row %#x cell %d shows %s, expected %s", r.addr, k, r.bytes[k], exp), Case: c}
			}
		}
		rowOfWindow[r.addr] = i0 + ri
		prevData, prevAddr = true, r.addr
		wi++
	}
	if wi != len(wl) {
		return &eng.Fail{Sig: "memview rows", What: fmt.Sprintf("window %#x touching stored memory has no row", wl[wi]), Case: c}
	}
	// address command
	var addrCmd consoleui.Command
	for _, cmd := range m.Commands() {
		if cmd.Keys[0] == "address" {
			addrCmd = cmd
		}
	}
	probe := map[uint64]bool{}
	for a := range mdl {
		probe[a] = true
		probe[a-1] = true
		probe[a+1] = true
	}
	for _, w := range wl {
		probe[w-1], probe[w+16] = true, true
	}
	var pl []uint64
	for a := range probe {
		pl = append(pl, a)
	}
	sort.Slice(pl, func(i, j int) bool { return pl[i] < pl[j] })
	nrows := len(rows)
	for _, a := range pl {
		for start := 0; start < nrows; start++ {
			// the command is issued from EVERY cursor row (data and ellipsis rows)
			for _, cmd := range m.Commands() {
				if cmd.Keys[0] == "goto" {
					cmd.Action(nil, start)
				}
			}
			arg, err := addrCmd.Args[0](fmt.Sprintf("%#x", a))
			if err != nil {
				return &eng.Fail{Sig: "memview address parse", What: fmt.Sprintf("address %#x rejected: %v", a, err), Case: c}
			}
			var aerr error
			p, stack := eng.Catch(func() { aerr = addrCmd.Action(nil, arg) })
			if p != nil {
				return &eng.Fail{Sig: "memview address panic " + eng.PanicSite(stack), What: fmt.Sprintf("address %#x panics: %v", a, p), Case: c}
			}
			cur, _ := memview.VerifCursor(m)
			_, stored := mdl[a]
			inRow := wins[a&^15]
			switch {
			case stored:
				if aerr != nil || cur != rowOfWindow[a&^15] {
					return &eng.Fail{Sig: "memview address wrong-row", What: fmt.Sprintf("address %#x (stored), issued with the cursor on row %d, selects row %d (err %v), its row is %d", a, start, cur, aerr, rowOfWindow[a&^15]), Case: c}
				}
				if start == 0 || start == nrows-1 {
					// what the user sees: on a screen that cannot show all rows (5, 8 lines) and on a tall
					// one, exactly one row carries the marker and it is the row holding the address
					for _, n := range []int{5, 8, 200} {
						var sp any
						var sstack string
						var serr error
						sout := uix.Capture(func() { sp, sstack = eng.Catch(func() { serr = v.Print(n) }) })
						if sp != nil || serr != nil {
							return &eng.Fail{Sig: "memview render panic " + eng.PanicSite(sstack), What: fmt.Sprintf("rendering %d lines after 'address %#x' fails: %v %v", n, a, sp, serr), Case: c}
						}
						srows, bad := c32Parse(sout)
						if bad != "" {
							return &eng.Fail{Sig: "memview unparsable", What: bad, Case: c}
						}
						marks := 0
						for _, sr := range srows {
							if sr.marked {
								marks++
								if sr.ellipsis || sr.addr != a&^15 {
									return &eng.Fail{Sig: "memview marker on wrong row", What: fmt.Sprintf("after 'address %#x' a screen of %d lines marks the row of %#x (ellipsis: %v)", a, n, sr.addr, sr.ellipsis), Case: c}
								}
							}
						}
						if marks != 1 {
							return &eng.Fail{Sig: "memview marker count", What: fmt.Sprintf("after 'address %#x' a screen of %d lines shows %d marked rows: %q", a, n, marks, sout), Case: c}
						}
					}
				}
			case !inRow:
				if aerr == nil {
					return &eng.Fail{Sig: "memview address accepts-unmapped", What: fmt.Sprintf("address %#x lies in no row but was accepted (row %d)", a, cur), Case: c}
				}
				if cur != start {
					return &eng.Fail{Sig: "memview address failing-moves-cursor", What: fmt.Sprintf("address %#x failed but moved the cursor from %d to %d", a, start, cur), Case: c}
				}
			default: // absent byte inside a row: either is fine, but a success must select that row
				if aerr == nil && cur != rowOfWindow[a&^15] {
					return &eng.Fail{Sig: "memview address wrong-row", What: fmt.Sprintf("address %#x selects row %d, its row is %d", a, cur, rowOfWindow[a&^15]), Case: c}
				}
			}
		}
	}
	return nil
}

func wW(w int) expr.Width { return expr.Width(w) }

func init() {
	checks["C32"] = eng.Check{
		Procs:       8,
		Rule:        "memories (Sparse; Overlay(Bytes, Sparse) with 3 base layouts) storing EVERY union of <=2 runs with endpoints from {0,1,15,16,17,31,32,33,47,48} (thorough: <=3 runs with endpoints from {0,1,2,15,16,17,31,32,33,47,48,63,64}) plus a far run, written with distinct bytes as 1..4-byte stores and then partially overwritten (3 overwrite patterns), also shifted to 0xfff0, to the top of the address space incl. its last row, and with further bytes 2^63 above the runs (rows in both halves of the address space); the real memory view rendered with 200 granted lines and parsed: one row per aligned 16-byte window touching stored memory in address order, each stored byte's current value, '..' for absent bytes, exactly one ellipsis between non-consecutive rows and none between consecutive ones; the real address command for every stored address +-1 and window edge, issued from EVERY cursor row (data and ellipsis rows): selects the stored address's row, fails (cursor unchanged) outside every row; after a successful address command screens of 5, 8 and 200 lines show exactly one marked row, the one holding the address. Non-trivial = layout with stored bytes.",
		Assumptions: []string{"leading/trailing ellipsis rows and the outcome for an absent byte inside a shown row are not constrained"},
		Run: func(r *eng.Run) {
			ends := []int{0, 1, 15, 16, 17, 31, 32, 33, 47, 48}
			if !r.Quick() {
				ends = []int{0, 1, 2, 15, 16, 17, 31, 32, 33, 47, 48, 63, 64}
			}
			var runs [][2]int
			for i, b := range ends {
				for _, e := range ends[i+1:] {
					runs = append(runs, [2]int{b, e})
				}
			}
			far := [2]int{200, 203}
			var layouts [][][2]int
			for _, a := range runs {
				layouts = append(layouts, [][2]int{a}, [][2]int{a, far})
			}
			for i, a := range runs {
				for _, b := range runs[i+1:] {
					if b[0] > a[1] {
						layouts = append(layouts, [][2]int{a, b})
					}
				}
			}
			if !r.Quick() {
				// unions of three runs
				for i, a := range runs {
					for j := i + 1; j < len(runs); j++ {
						b := runs[j]
						if b[0] <= a[1] {
							continue
						}
						for _, c := range runs[j+1:] {
							if c[0] > b[1] {
								layouts = append(layouts, [][2]int{a, b, c})
							}
						}
					}
				}
			}
			overs := [][][2]int{nil, {{1, 3}}, {{14, 18}}, {{30, 34}, {0, 1}}}
			bases := [][][2]int{{{0, 8}}, {{16, 20}, {40, 64}}, {{5, 6}}}
			item := 0
			do := func(c c32Case) {
				// a shifted layout one of whose runs would straddle 2^64 is no memory content
				// (a store cannot wrap around the address space; ending exactly at 2^64 is fine)
				for _, l := range [][][2]int{c.Runs, c.Over} {
					for _, iv := range l {
						if b, e := c.Shift+uint64(iv[0]), c.Shift+uint64(iv[1]); e < b && e != 0 {
							return
						}
					}
				}
				item++
				if !r.Mine(item) {
					return
				}
				f := c32Run(c)
				r.Eval(1)
				if len(c.Runs)+len(c.Base) > 0 {
					r.Nontrivial(1)
				}
				if f != nil {
					r.Report(f)
					r.Outcome(f.Sig)
				}
			}
			do(c32Case{Kind: "sparse"})
			for li, l := range layouts {
				for oi, o := range overs {
					if r.Quick() && oi > 0 && (li+oi)%3 != 0 {
						continue
					}
					do(c32Case{Kind: "sparse", Runs: l, Over: o})
					if li%5 == 0 {
						do(c32Case{Kind: "sparse", Runs: l, Over: o, Shift: 0xfff0})
						do(c32Case{Kind: "sparse", Runs: l, Over: o, Shift: 0xffffffffffffff00})
						// rows in both halves of the address space (2^63 apart), and the last row of the address space
						do(c32Case{Kind: "sparse", Runs: l, Over: o, Half: true})
						do(c32Case{Kind: "sparse", Runs: l, Over: o, Shift: 0x7fffffffffffffe0, Half: true})
						do(c32Case{Kind: "sparse", Runs: l, Over: o, Shift: 0xffffffffffffffcf})
					}
					for bi, b := range bases {
						if r.Quick() && (li+bi)%4 != 0 {
							continue
						}
						do(c32Case{Kind: "overlay", Base: b, Runs: l, Over: o})
					}
				}
			}
			if r.Mine(0) {
				r.Note("layouts=%d overwrite patterns=%d bases=%d", len(layouts), len(overs), len(bases))
				r.Sample(c32Case{Kind: "overlay", Base: bases[1], Runs: [][2]int{{15, 17}, {33, 47}}, Over: overs[2]})
			}
		},
		Replay: func(r *eng.Run, raw json.RawMessage) *eng.Fail {
			var c c32Case
			if err := json.Unmarshal(raw, &c); err != nil {
				panic(err)
			}
			return c32Run(c)
		},
	}
}
