// Command ui hosts the checks over the console UI (C22-C24, C29-C32).
package main

import "mltwist/verifh/eng"

var checks = map[string]eng.Check{}

func main() { eng.Main(checks) }
