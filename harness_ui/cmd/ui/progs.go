package main

import (
	"mltwist/internal/consoleui/verifh/uix"
	"mltwist/internal/parser"
	"mltwist/pkg/expr"
	"mltwist/pkg/model"
	"mltwist/verifh/eng"
	"mltwist/verifh/prog"
)

// programs used by the UI checks.
type uiProg struct {
	Name  string
	Segs  []prog.Seg
	Entry uint64
	// Syn: the code is given as synthetic instructions (shapes no RISC-V front end produces)
	Syn func() []parser.Instruction
}

// newSession builds the UI session of a program.
func newSession(p uiProg) (*uix.Session, error) {
	if p.Syn != nil {
		return uix.NewFromIns(p.Syn(), p.Entry)
	}
	return uix.New(p.Segs, p.Entry)
}

type synText struct{ name, text string }

func (d synText) Name() string   { return d.name }
func (d synText) String() string { return d.text }

// synLong: two blocks (separated by an address gap) of mutually independent instructions with
// encodings of 4, 12, 9 / 16, 2, 2 bytes and texts of up to 33 characters that differ only near their end;
// the last two instructions have the same bytes and different texts.
func synLong() []parser.Instruction {
	mk := func(addr uint64, n int, reg, name, text string) parser.Instruction {
		bs := make([]byte, n)
		for i := range bs {
			bs[i] = byte(addr) + byte(0x11*(i+1))
		}
		return parser.Instruction{Addr: model.Addr(addr), Bytes: bs, Details: synText{name, text},
			Effects: []expr.Effect{expr.NewRegStore(expr.ConstFromUint(uint64(n)), expr.Key(reg), 8)}}
	}
	return []parser.Instruction{
		mk(0x1000, 4, "ra", "nop.s", "nop.s"),
		mk(0x1004, 12, "rb", "vfmadd.precise", "vfmadd.precise v10, v11, v12, v13"),
		mk(0x1010, 9, "rc", "vfmadd.precise", "vfmadd.precise v10, v11, v12, v14"),
		mk(0x2000, 16, "rd", "vldst.gather.masked", "vldst.gather.masked v1, (v2), v0.t"),
		mk(0x2010, 2, "re", "c.nop", "c.nop"),
		// the same two bytes as the instruction before it, another text (a text need not be a function of the bytes)
		func() parser.Instruction {
			in := mk(0x2012, 2, "rf", "c.alt", "c.alt 0x2012")
			copy(in.Bytes, mk(0x2010, 2, "re", "c.nop", "c.nop").Bytes)
			return in
		}(),
	}
}

var uiProgs = []uiProg{
	{"one-instruction", []prog.Seg{{Base: 0x1000, Words: []uint32{prog.Nop}}}, 0x1000, nil},
	{"three-blocks", []prog.Seg{{Base: 0x1000, Words: []uint32{
		prog.Addi(1, 0, 1), prog.Addi(2, 0, 2), prog.Beq(1, 2, 12), // block 1 (3)
		prog.Addi(3, 0, 3), prog.Sw(3, 5, 0), // block 2 (2)
		prog.Lw(4, 5, 0), prog.Add(6, 4, 3), prog.Addi(7, 0, 7), prog.Jal(0, -32), // block 3 (4)
	}}}, 0x1000, nil},
	{"loop-with-gap", []prog.Seg{
		{Base: 0x1000, Words: []uint32{prog.Addi(1, 1, 1), prog.Sb(1, 2, 0), prog.Lbu(3, 2, 1), prog.Bne(1, 3, -12)}},
		{Base: 0x2000, Words: []uint32{prog.Ecall}},
	}, 0x1004, nil},
	// blocks of 2, 1 and 2 instructions: equal-sized outer blocks around a different one
	{"sym-blocks", []prog.Seg{{Base: 0x1000, Words: []uint32{
		prog.Addi(5, 0, 1), prog.Jal(0, 8),
		prog.Jal(0, -8),
		prog.Addi(6, 0, 2), prog.Jal(0, -16),
	}}}, 0x1000, nil},
	// synthetic instructions with long encodings and long texts
	{"synthetic-long", nil, 0x1000, synLong},
}

// uiProgsDeep are used by the thorough tiers only.
var uiProgsDeep = []uiProg{
	// blocks of 3, 2, 2 and 4 instructions; the first and the last hold mutually independent instructions
	{"four-blocks", []prog.Seg{{Base: 0x1000, Words: []uint32{
		prog.Addi(1, 0, 1), prog.Addi(2, 0, 2), prog.Beq(1, 2, 12), // -> 0x1014
		prog.Addi(3, 0, 3), prog.Jal(0, 12), // -> 0x101c
		prog.Sw(3, 5, 0), prog.Lw(4, 5, 4),
		prog.Add(6, 4, 3), prog.Addi(7, 0, 7), prog.Addi(8, 0, 8), prog.Jal(0, -40), // -> 0x1000
	}}}, 0x100c, nil},
	// two segments, five blocks, entry in the middle of the second segment
	{"two-segments", []prog.Seg{
		{Base: 0x1000, Words: []uint32{prog.Addi(1, 0, 1), prog.Bne(1, 0, 8), prog.Addi(2, 0, 2), prog.Addi(3, 0, 3), prog.Jal(0, -16)}},
		{Base: 0x3000, Words: []uint32{prog.Addi(4, 0, 4), prog.Jal(0, 8), prog.Ecall, prog.Addi(5, 0, 5), prog.Addi(6, 0, 6), prog.Jal(0, -12)}},
	}, 0x300c, nil},
}

func progByName(n string) uiProg {
	for _, p := range uiProgsDeep {
		if p.Name == n {
			return p
		}
	}
	for _, p := range uiProgs {
		if p.Name == n {
			return p
		}
	}
	return uiProgs[0]
}

// deepNames adds the thorough-only programs to a list of program names.
func deepNames(r *eng.Run, names []string) []string {
	if r.Quick() {
		return names
	}
	out := append([]string{}, names...)
	for _, p := range uiProgsDeep {
		out = append(out, p.Name)
	}
	return out
}
