package main

import "mltwist/verifh/prog"

// programs used by the UI checks.
type uiProg struct {
	Name  string
	Segs  []prog.Seg
	Entry uint64
}

var uiProgs = []uiProg{
	{"one-instruction", []prog.Seg{{Base: 0x1000, Words: []uint32{prog.Nop}}}, 0x1000},
	{"three-blocks", []prog.Seg{{Base: 0x1000, Words: []uint32{
		prog.Addi(1, 0, 1), prog.Addi(2, 0, 2), prog.Beq(1, 2, 12), // block 1 (3)
		prog.Addi(3, 0, 3), prog.Sw(3, 5, 0), // block 2 (2)
		prog.Lw(4, 5, 0), prog.Add(6, 4, 3), prog.Addi(7, 0, 7), prog.Jal(0, -32), // block 3 (4)
	}}}, 0x1000},
	{"loop-with-gap", []prog.Seg{
		{Base: 0x1000, Words: []uint32{prog.Addi(1, 1, 1), prog.Sb(1, 2, 0), prog.Lbu(3, 2, 1), prog.Bne(1, 3, -12)}},
		{Base: 0x2000, Words: []uint32{prog.Ecall}},
	}, 0x1004},
	// blocks of 2, 1 and 2 instructions: equal-sized outer blocks around a different one
	{"sym-blocks", []prog.Seg{{Base: 0x1000, Words: []uint32{
		prog.Addi(5, 0, 1), prog.Jal(0, 8),
		prog.Jal(0, -8),
		prog.Addi(6, 0, 2), prog.Jal(0, -16),
	}}}, 0x1000},
}

func progByName(n string) uiProg {
	for _, p := range uiProgs {
		if p.Name == n {
			return p
		}
	}
	return uiProgs[0]
}
