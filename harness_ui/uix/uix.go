// Package uix drives the real console UI in-process: command lines are
// injected through the line reader hook, stdout is captured, the screen is
// rendered exactly as UI.Run would (minus the terminal-size system call).
package uix

import (
	"errors"
	"fmt"
	"io"
	"os"
	"sort"
	"strings"
	"time"

	"mltwist/internal/consoleui"
	"mltwist/internal/consoleui/disassemble"
	"mltwist/internal/consoleui/emulate"
	"mltwist/internal/consoleui/internal/linereader"
	"mltwist/internal/consoleui/internal/lines"
	"mltwist/internal/consoleui/internal/memview"
	"mltwist/internal/consoleui/internal/view"
	"mltwist/internal/deps"
	"mltwist/internal/parser"
	"mltwist/internal/riscv"
	"mltwist/internal/state"
	"mltwist/internal/state/memory"
	"mltwist/pkg/expr"
	"mltwist/pkg/model"
	"mltwist/verifh/eng"
	"mltwist/verifh/ir"
	"mltwist/verifh/prog"
)

// Discard, when set, makes Capture send the output to /dev/null instead of
// collecting it (for checks whose oracle does not read the screen text).
var Discard bool

var devNull *os.File

var realStdout = os.Stdout

// Capture runs f with os.Stdout redirected and returns what was written.
func Capture(f func()) string {
	// always restore the process's real stdout: after an abandoned (hung)
	// call os.Stdout may still point at that call's capture
	old := realStdout
	if Discard {
		if devNull == nil {
			var err error
			if devNull, err = os.OpenFile(os.DevNull, os.O_WRONLY, 0); err != nil {
				panic(err)
			}
		}
		os.Stdout = devNull
		defer func() { os.Stdout = old }()
		f()
		return ""
	}
	r, w, err := os.Pipe()
	if err != nil {
		panic(err)
	}
	os.Stdout = w
	done := make(chan string)
	go func() {
		b, _ := io.ReadAll(r)
		done <- string(b)
	}()
	func() {
		defer func() {
			os.Stdout = old
			w.Close()
		}()
		f()
	}()
	out := <-done
	r.Close()
	return out
}

// Session is one UI instance on one program.
type Session struct {
	UI   *consoleui.UI
	Code *deps.Code
	Segs []prog.Seg
	Quit bool // the application quit (mode stack empty)
}

type byteBlock struct {
	begin model.Addr
	bytes []byte
}

func (b byteBlock) Begin() model.Addr { return b.begin }
func (b byteBlock) Bytes() []byte     { return b.bytes }

// New builds the UI as cmd/mltwist does: disassembler mode whose emulate
// command creates Overlay(Bytes(image), Sparse) state.
func New(segs []prog.Seg, entry uint64) (*Session, error) {
	ins, err := prog.Instructions(segs)
	if err != nil {
		return nil, err
	}
	code, err := prog.Code(entry, ins)
	if err != nil {
		return nil, err
	}
	var blocks []memory.ByteBlock
	for _, s := range segs {
		blocks = append(blocks, byteBlock{model.Addr(s.Base), prog.Image(s.Words)})
	}
	bm, err := memory.NewBytes(blocks)
	if err != nil {
		return nil, err
	}
	emulF := func(p *deps.Code, ip model.Addr) (consoleui.Mode, error) {
		m := memory.NewOverlay(bm, memory.NewSparse())
		st := &state.State{Regs: state.NewRegMap(), Mems: memory.MemMap{riscv.MemoryKey: m}}
		return emulate.New(p, ip, st)
	}
	ui, err := consoleui.New(disassemble.New(code, emulF))
	if err != nil {
		return nil, err
	}
	return &Session{UI: ui, Code: code, Segs: segs}, nil
}

// NewFromIns is New for a code given as (synthetic) instructions instead of machine words:
// the code model is built from them directly, the program image holds their bytes.
func NewFromIns(ins []parser.Instruction, entry uint64) (*Session, error) {
	cp := make([]parser.Instruction, len(ins))
	copy(cp, ins)
	code, err := deps.NewCode(model.Addr(entry), cp)
	if err != nil {
		return nil, err
	}
	var blocks []memory.ByteBlock
	for _, in := range ins {
		blocks = append(blocks, byteBlock{in.Addr, append([]byte{}, in.Bytes...)})
	}
	bm, err := memory.NewBytes(blocks)
	if err != nil {
		return nil, err
	}
	emulF := func(p *deps.Code, ip model.Addr) (consoleui.Mode, error) {
		m := memory.NewOverlay(bm, memory.NewSparse())
		st := &state.State{Regs: state.NewRegMap(), Mems: memory.MemMap{riscv.MemoryKey: m}}
		return emulate.New(p, ip, st)
	}
	ui, err := consoleui.New(disassemble.New(code, emulF))
	if err != nil {
		return nil, err
	}
	return &Session{UI: ui, Code: code}, nil
}

// Tail is appended to every injected input so that prompts never hit EOF.
var Tail = strings.Repeat("1\n", 60)

// HangLimit bounds every call into the UI (a command normally takes well
// under a millisecond). A call that exceeds it is reported like a crash, with
// the site "HANG"; the check stops exploring in this process afterwards.
var HangLimit = 30 * time.Second

func hungResult(what string) *Result {
	os.Stdout = realStdout // the abandoned call never restores it
	return &Result{Panic: "no return: " + what, Stack: eng.HangMark + what}
}

// Result of one command.
type Result struct {
	Out   string
	Err   error
	Panic any
	Stack string
}

// Command feeds one line (plus answers to prompts) to the real processCommand.
func (s *Session) Command(line string, answers ...string) *Result {
	in := line + "\n"
	for _, a := range answers {
		in += a + "\n"
	}
	linereader.VerifSetInput(strings.NewReader(in + Tail))
	res := &Result{}
	eng.StopIfHung() // an abandoned command still runs in this process: nothing more is executed
	run := &Result{}
	if !eng.Within(HangLimit, func() {
		run.Out = Capture(func() {
			run.Panic, run.Stack = eng.Catch(func() { run.Err = consoleui.VerifProcess(s.UI) })
		})
	}) {
		return hungResult(fmt.Sprintf("the command %q did not return within %v", line, HangLimit))
	}
	res = run
	if res.Err != nil && errors.Is(res.Err, consoleui.ErrQuit) {
		s.Quit = true
		res.Err = nil
	}
	return res
}

// Render prints the screen for a terminal of the given height following
// view.Print; returns the text, and the panic if any.
func (s *Session) Render(height int) *Result {
	eng.StopIfHung()
	res := &Result{}
	if !eng.Within(HangLimit, func() { s.render(res, height) }) {
		return hungResult(fmt.Sprintf("rendering at height %d did not return within %v", height, HangLimit))
	}
	return res
}

func (s *Session) render(res *Result, height int) {
	res.Out = Capture(func() {
		res.Panic, res.Stack = eng.Catch(func() {
			e := consoleui.VerifScreen(s.UI)
			if height < e.MinLines() {
				return
			}
			n := e.MaxLines()
			if n < 0 || n > height {
				n = height
			}
			res.Err = e.Print(n)
		})
	})
}

// LinesWritten counts the screen lines a text occupies.
func LinesWritten(out string) int {
	n := strings.Count(out, "\n")
	if out != "" && !strings.HasSuffix(out, "\n") {
		n++
	}
	return n
}

// Depth of the mode stack.
func (s *Session) Depth() int { return consoleui.VerifModeDepth(s.UI) }

// ModeKind: disassemble | emulate | memview | none.
func (s *Session) ModeKind() string {
	if s.Quit || s.Depth() == 0 {
		return "none"
	}
	m := consoleui.VerifMode(s.UI)
	switch {
	case disassemble.VerifIs(m):
		return "disassemble"
	case emulate.VerifIs(m):
		return "emulate"
	case memview.VerifIs(m):
		return "memview"
	}
	return "unknown"
}

// ListView returns the listing view of the current mode (disassembler or
// emulator), or nil.
func (s *Session) ListView() *lines.View {
	if s.Quit || s.Depth() == 0 {
		return nil
	}
	m := consoleui.VerifMode(s.UI)
	switch {
	case disassemble.VerifIs(m):
		return disassemble.VerifView(m)
	case emulate.VerifIs(m):
		return emulate.VerifLineView(m)
	}
	return nil
}

// CodeKey describes the current block/instruction order.
func (s *Session) CodeKey() string {
	var sb strings.Builder
	for _, b := range s.Code.Blocks() {
		fmt.Fprintf(&sb, "%x:", b.Begin())
		for _, in := range b.Instructions() {
			fmt.Fprintf(&sb, "%x,", in.OrigAddr())
		}
		sb.WriteString("|")
	}
	return sb.String()
}

// StateKey is the canonical key of the whole UI state: mode stack, cursors,
// code order, emulator registers and memory.
func (s *Session) StateKey() string {
	if s.Quit {
		return "QUIT"
	}
	var sb strings.Builder
	fmt.Fprintf(&sb, "depth=%d mode=%s(%s) code=%s", s.Depth(), s.ModeKind(), consoleui.VerifModeName(s.UI), s.CodeKey())
	if v := s.ListView(); v != nil {
		fmt.Fprintf(&sb, " cur=%d", v.Cursor.Value())
		for i := 0; i < v.Lines.Len(); i++ {
			if m := v.Lines.Index(i).Mark(); m != "" {
				fmt.Fprintf(&sb, " mark%d=%s", i, m)
			}
		}
	}
	m := consoleui.VerifMode(s.UI)
	if emulate.VerifIs(m) {
		em := emulate.VerifEmulator(m)
		var ks []string
		for k, e := range em.State.Regs.Values() {
			ks = append(ks, fmt.Sprintf("%s=%s", k, ir.Show(e)))
		}
		sort.Strings(ks)
		sb.WriteString(" regs=" + strings.Join(ks, ","))
		for k, mem := range em.State.Mems {
			if ov, ok := mem.(*memory.Overlay); ok {
				for _, iv := range ov.Overlay().Blocks().Intervals() {
					for a := iv.Begin(); a < iv.End(); a++ {
						e, _ := ov.Load(a, 1)
						v, _ := ir.FoldConst(e)
						fmt.Fprintf(&sb, " %s[%x]=%02x", k, a, v)
					}
				}
			}
		}
	}
	if memview.VerifIs(m) {
		c, ok := memview.VerifCursor(m)
		fmt.Fprintf(&sb, " memcur=%d/%v rows=%d", c, ok, len(memview.VerifRows(m)))
	}
	return sb.String()
}

var _ = view.Print
var _ = expr.Zero
