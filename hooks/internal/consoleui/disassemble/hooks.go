//go:build verif

package disassemble

import (
	"mltwist/internal/consoleui"
	"mltwist/internal/consoleui/internal/lines"
)

// VerifView returns the listing view of a disassembler mode.
func VerifView(m consoleui.Mode) *lines.View { return m.(*mode).view }

// VerifIs reports whether m is a disassembler mode.
func VerifIs(m consoleui.Mode) bool { _, ok := m.(*mode); return ok }
