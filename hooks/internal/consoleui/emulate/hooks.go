//go:build verif

package emulate

import (
	"mltwist/internal/consoleui"
	"mltwist/internal/consoleui/internal/lines"
	"mltwist/internal/consoleui/internal/view"
	"mltwist/internal/emulator"
	"mltwist/internal/state"
	"mltwist/pkg/expr"
)

// VerifEmulator returns the emulator of an emulation mode.
func VerifEmulator(m consoleui.Mode) *emulator.Emulator { return m.(*mode).emul }

// VerifLineView returns the listing view of an emulation mode.
func VerifLineView(m consoleui.Mode) *lines.View { return m.(*mode).lineView }

// VerifIs reports whether m is an emulation mode.
func VerifIs(m consoleui.Mode) bool { _, ok := m.(*mode); return ok }

// VerifRegView builds the register view of a state.
func VerifRegView(s *state.State) view.View { return newRegView(s) }

// VerifReadValue exposes readValue.
func VerifReadValue(w expr.Width) (expr.Const, error) { return readValue(w) }
