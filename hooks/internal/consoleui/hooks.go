//go:build verif

package consoleui

import "mltwist/internal/consoleui/internal/view"

// VerifFormat exposes format.
func VerifFormat(s string, indent int, width int) string { return format(s, indent, width) }

// VerifProcess reads and processes one command line exactly as Run does.
func VerifProcess(ui *UI) error { return ui.processCommand() }

// VerifScreen is the composite view Run renders before each command.
func VerifScreen(ui *UI) view.View {
	return view.NewComposite(ui.mode().mode.View(), commandPrompt{})
}

// VerifModeDepth is the height of the mode stack.
func VerifModeDepth(ui *UI) int { return len(ui.modeStack) }

// VerifModeName names the current mode ("" if none).
func VerifModeName(ui *UI) string {
	if len(ui.modeStack) == 0 {
		return ""
	}
	return ui.mode().name
}

// VerifMode returns the current mode.
func VerifMode(ui *UI) Mode { return ui.mode().mode }
