//go:build verif

package linereader

import "io"

// VerifSetInput replaces the package-level stdin reader.
func VerifSetInput(rd io.Reader) { r = newLineReader(rd) }
