//go:build verif

package memview

import (
	"mltwist/internal/consoleui"
	"mltwist/internal/consoleui/internal/view"
	"mltwist/pkg/model"
)

// VerifParseAddr exposes parseAddr.
func VerifParseAddr(s string) (model.Addr, error) {
	v, err := parseAddr(s)
	if err != nil {
		return 0, err
	}
	return v.(model.Addr), nil
}

// VerifRow is one row of the memory view.
type VerifRow struct {
	Addr   model.Addr
	Ranges [][2]model.Addr
}

// VerifRows lists the rows (ellipsis rows have no ranges).
func VerifRows(m consoleui.Mode) []VerifRow {
	var out []VerifRow
	for _, l := range m.(*mode).view.lines {
		r := VerifRow{Addr: l.addr}
		for _, x := range l.ranges {
			r.Ranges = append(r.Ranges, [2]model.Addr{x.Begin(), x.End()})
		}
		out = append(out, r)
	}
	return out
}

// VerifCursor returns the cursor row (ok=false when there is no memory).
func VerifCursor(m consoleui.Mode) (int, bool) {
	v := m.(*mode).view
	if v.c == nil || len(v.lines) == 0 {
		return 0, false
	}
	return v.c.Value(), true
}

// VerifView returns the view of a memory-view mode.
func VerifView(m consoleui.Mode) view.View { return m.(*mode).view }

// VerifIs reports whether m is a memory-view mode.
func VerifIs(m consoleui.Mode) bool { _, ok := m.(*mode); return ok }
