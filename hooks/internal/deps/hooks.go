//go:build verif

package deps

import "mltwist/pkg/model"

// VerifEdges lists the dependency edges of a block as pairs of original
// addresses (first must stay before second).
func VerifEdges(b Block) [][2]model.Addr {
	var out [][2]model.Addr
	for _, ins := range b.seq {
		for d := range ins.depsFwd {
			out = append(out, [2]model.Addr{ins.origAddr, d.origAddr})
		}
	}
	return out
}
