//go:build verif

package deps

import (
	"mltwist/internal/parser"
	"mltwist/pkg/expr"
	"mltwist/pkg/model"
)

// VerifEdges lists the dependency edges of a block as pairs of original
// addresses (first must stay before second).
func VerifEdges(b Block) [][2]model.Addr {
	var out [][2]model.Addr
	for _, ins := range b.seq {
		for d := range ins.depsFwd {
			out = append(out, [2]model.Addr{ins.origAddr, d.origAddr})
		}
	}
	return out
}

// VerifJumps returns the jump targets the code model derives for an instruction
// (the alternatives of its instruction-pointer writes without the fall-through).
func VerifJumps(ins parser.Instruction) []expr.Expr { return jumps(ins) }
