//go:build verif

package elf

import "mltwist/pkg/model"

// VerifBlock describes one block for VerifNewMemory.
type VerifBlock struct {
	Begin model.Addr
	Bytes []byte
}

// VerifNewMemory builds a Memory through the real newBlock/newMemory.
func VerifNewMemory(bs []VerifBlock) (*Memory, error) {
	blocks := make([]Block, len(bs))
	for i, b := range bs {
		blocks[i] = newBlock(b.Begin, b.Bytes)
	}
	return newMemory(blocks)
}
