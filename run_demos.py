#!/usr/bin/env python3
"""Detection demonstrations: for each entry of demos/demos.json build a mutated
copy of one repository file (string replacement), inject it through an extra
build overlay (so /repo is untouched), check that the repository's own tests
still pass with it, and that the named checks report a VIOLATION (exit 1).

usage: run_demos.py [id-filter ...]      results -> demos/results.json
"""
import json, os, subprocess, sys, shutil, tempfile
V = os.path.dirname(os.path.abspath(__file__))
R = os.environ.get("VERIF_REPO", "/repo")
env = dict(os.environ, GOFLAGS="-mod=mod", GOPROXY="off", GOSUMDB="off", GOTOOLCHAIN="local")
demos = json.load(open(os.path.join(V, "demos", "demos.json")))
flt = sys.argv[1:]
results = []
resfile = os.path.join(V, "demos", "results.json")
old = {}
if os.path.exists(resfile):
    for r in json.load(open(resfile)):
        old[r["name"]] = r
for d in demos:
    if flt and not any(f == d["name"] or f in d["checks"] for f in flt):
        if d["name"] in old:
            results.append(old[d["name"]])
        continue
    scratch = tempfile.mkdtemp(prefix="vdemo")
    try:
        rep = {}
        for i, m in enumerate(d["mutations"]):
            src = open(os.path.join(R, m["file"])).read()
            if src.count(m["old"]) != 1:
                print("DEMO %s: PATTERN occurs %d times in %s" % (d["name"], src.count(m["old"]), m["file"]))
                raise KeyError("pattern")
            mf = os.path.join(scratch, "m%d.go" % i)
            open(mf, "w").write(src.replace(m["old"], m["new"]))
            rep[os.path.join(R, m["file"])] = mf
        ov = os.path.join(scratch, "extra.json")
        json.dump({"Replace": rep}, open(ov, "w"))
        t = subprocess.run(["go", "test", "-vet=off", "-count=1", "-overlay", ov, "./..."], cwd=R, env=env,
                           capture_output=True, text=True)
        tests_pass = t.returncode == 0
        os.makedirs(os.path.join(scratch, "v"), exist_ok=True)
        shutil.copy(os.path.join(V, "known_findings.json"), os.path.join(scratch, "v", "known_findings.json"))
        res = {"name": d["name"], "note": d.get("note", ""), "repo_tests_pass": tests_pass, "checks": {}}
        for cid in d["checks"]:
            e = dict(env, VERIF_EXTRA_OVERLAY=ov, VERIF_DIR_OVERRIDE=os.path.join(scratch, "v"))
            p = subprocess.run([os.path.join(V, "check.sh"), cid, d.get("tier", "quick")], env=e, capture_output=True, text=True)
            viol = [l for l in p.stdout.splitlines() if l.startswith("VIOLATION")]
            sigs = [l.strip() for l in p.stdout.splitlines() if l.strip().startswith("signature=")]
            res["checks"][cid] = {"exit": p.returncode, "violations": len(viol), "first": sigs[:3]}
            print("DEMO %-28s %s exit=%d violations=%d tests_pass=%s %s" % (d["name"], cid, p.returncode, len(viol), tests_pass, sigs[:1]))
            if p.returncode not in (0, 1):
                print(p.stdout[-2000:], p.stderr[-2000:])
        results.append(res)
    except KeyError:
        results.append({"name": d["name"], "error": "pattern not found"})
    finally:
        shutil.rmtree(scratch, ignore_errors=True)
json.dump(results, open(resfile, "w"), indent=1)
