#!/bin/bash
# usage: seed_ingest.sh <agent worktree> <seeded dir name> 
# Copies an agent's deliverables (SEED/patch.diff, README, the demo test found in the
# worktree) into /verif/seeded/<name>/ and records in which package the demo lives.
set -u
W="$1"; N="$2"; D=/verif/seeded/$N
mkdir -p "$D"
cp "$W/SEED/patch.diff" "$D/patch.diff" || exit 1
cp "$W/SEED/README.md" "$D/agent_README.md" 2>/dev/null
T=$(cd "$W" && git ls-files --others --exclude-standard | grep 'zz_seed_demo_test.go$' | head -1)
[ -n "$T" ] || { echo "no demo test in $W"; exit 1; }
cp "$W/$T" "$D/zz_seed_demo_test.go"
dirname "$T" > "$D/demo.path"
echo "$N: demo in $(cat $D/demo.path), patch $(grep -c '^[+-][^+-]' $D/patch.diff) changed lines"
