#!/bin/bash
# usage: seed_run.sh <seeded dir> <check id>...
# Runs the checks against a seeded change. By default the patch is applied in a scratch
# worktree of /repo (VERIF_REPO points the checks at it), so /repo itself stays untouched
# while other runs use it; with SEED_INPLACE=1 it is applied to /repo and reverted afterwards
# (the way an evaluator would do it). Evidence goes to a scratch directory.
set -u
D="$(cd "$1" && pwd)"; shift
S=$(mktemp -d /tmp/seedrun.XXXXXX); cp /verif/known_findings.json "$S/"
if [ "${SEED_INPLACE:-0}" = 1 ]; then
  cd /repo || exit 3
  if [ -n "$(git status --porcelain)" ]; then echo "/repo not clean" >&2; exit 3; fi
  git apply "$D/patch.diff" || exit 3
  R=/repo
else
  git -C /repo worktree add --detach -q "$S/wt" HEAD || exit 3
  git -C "$S/wt" apply "$D/patch.diff" || exit 3
  R="$S/wt"
fi
for id in "$@"; do
  VERIF_REPO="$R" VERIF_DIR_OVERRIDE="$S" timeout "${SEED_TIMEOUT:-1800}" /verif/check.sh "$id" "${SEED_TIER:-quick}" > "$S/$id.out" 2>&1; rc=$?
  v=$(grep -c '^VIOLATION' "$S/$id.out")
  echo "$id exit=$rc violations=$v $(grep -m2 'signature=' "$S/$id.out" | cut -c1-220 | tr '\n' ' ')"
done
if [ "${SEED_INPLACE:-0}" = 1 ]; then git -C /repo checkout -- .; else git -C /repo worktree remove --force "$S/wt"; fi
rm -rf "$S"
