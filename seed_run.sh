#!/bin/bash
# usage: seed_run.sh <seeded dir> <check id>...   applies patch.diff to /repo, runs the checks (evidence in a scratch
# dir), reverts /repo. Prints one line per check.
set -u
D="$(cd "$1" && pwd)"; shift
cd /repo || exit 3
if [ -n "$(git status --porcelain)" ]; then echo "/repo not clean" >&2; exit 3; fi
git apply "$D/patch.diff" || exit 3
S=$(mktemp -d /tmp/seedrun.XXXXXX); cp /verif/known_findings.json "$S/"
for id in "$@"; do
  VERIF_DIR_OVERRIDE="$S" /verif/check.sh "$id" "${SEED_TIER:-quick}" > "$S/$id.out" 2>&1; rc=$?
  v=$(grep -c '^VIOLATION' "$S/$id.out")
  echo "$id exit=$rc violations=$v $(grep -m2 'signature=' "$S/$id.out" | cut -c1-220 | tr '\n' ' ')"
done
git -C /repo checkout -- . 
rm -rf "$S"
