#!/bin/bash
# usage: seed_verify.sh <dir with patch.diff + demo test + demo.path> 
# Independently confirms a seeded change in a fresh scratch worktree of /repo:
#  (1) patch applies, builds, the repository's own tests pass with it
#  (2) the demonstration fails with the patch and passes without it
# Prints a JSON summary. The scratch worktree is removed afterwards.
set -u
D="$(cd "$1" && pwd)"
export GOFLAGS=-mod=mod GOPROXY=off GOSUMDB=off GOTOOLCHAIN=local
W=$(mktemp -d /tmp/seedv.XXXXXX)
git -C /repo worktree add --detach -q "$W/wt" HEAD || exit 3
cd "$W/wt"
DEMO_PKG=$(cat "$D/demo.path")          # package directory relative to the repo root
DEMO_FILE=$(ls "$D"/*_test.go | head -1)
res() { echo "{\"applies\": $1, \"tests_pass_with_patch\": $2, \"demo_fails_with_patch\": $3, \"demo_passes_without_patch\": $4}"; }
if ! git apply "$D/patch.diff"; then res false false false false; cd /; git -C /repo worktree remove --force "$W/wt"; rm -rf "$W"; exit 1; fi
go build ./... >/dev/null 2>"$W/build.log" && go test -vet=off -count=1 -timeout 900s ./... >"$W/test.log" 2>&1; T=$?
cp "$DEMO_FILE" "$DEMO_PKG/"
go test -vet=off -count=1 -timeout 300s "./$DEMO_PKG/" -run . >"$W/demo_with.log" 2>&1; A=$?
git apply -R "$D/patch.diff"
go test -vet=off -count=1 -timeout 300s "./$DEMO_PKG/" -run . >"$W/demo_without.log" 2>&1; B=$?
[ $T -eq 0 ] && t=true || t=false
[ $A -ne 0 ] && a=true || a=false
[ $B -eq 0 ] && b=true || b=false
res true $t $a $b
if [ "$t" != true ]; then tail -5 "$W/test.log" "$W/build.log"; fi
if [ "$a" != true ]; then tail -5 "$W/demo_with.log"; fi
if [ "$b" != true ]; then tail -15 "$W/demo_without.log"; fi
cd /
git -C /repo worktree remove --force "$W/wt"
rm -rf "$W"
