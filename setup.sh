#!/bin/bash
# Builds every harness group once (warms the Go build cache); offline.
set -u
V="$(cd "$(dirname "$0")" && pwd)"
export GOFLAGS=-mod=mod GOPROXY=off GOSUMDB=off GOTOOLCHAIN=local
REPO="${VERIF_REPO:-/repo}"
mkdir -p "$V/build" "$V/bin" "$V/evidence"
OV="$V/build/overlay.setup.json"
VERIF_OVERLAY_OUT="$OV" VERIF_REPO="$REPO" python3 "$V/gen_overlay.py" || exit 1
rc=0
for PKG in ./verifh/cmd/core ./verifh/cmd/riscv ./verifh/cmd/prog ./internal/consoleui/verifh/cmd/ui ./cmd/mltwist; do
  if [ -d "$V/harness/cmd/$(basename $PKG)" ] || [ -d "$V/harness_ui/cmd/$(basename $PKG)" ] || [ "$PKG" = ./cmd/mltwist ]; then
    ( cd "$REPO" && go build -tags verif -overlay "$OV" -o /dev/null "$PKG" ) || rc=1
  fi
done
rm -f "$OV"
exit $rc
